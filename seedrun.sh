#!/bin/bash
# seedrun.sh <PROP> <k> [vcheck args]: run the property's check against the kept seeded change (scratch worktree), no confirmation steps
P=$1; K=$2; shift 2
export GOFLAGS=-mod=mod GOPROXY=off
WT=/tmp/sr-$P-$K
git -C /repo worktree remove --force $WT 2>/dev/null
git -C /repo worktree add -q --detach $WT HEAD || exit 2
(cd $WT && git apply /verif/seeded/$P-$K/patch.diff) || { echo "PATCH DOES NOT APPLY"; git -C /repo worktree remove --force $WT; exit 2; }
OUT=/var/tmp/seedrun-$P-$K; rm -rf $OUT
cd /verif
VERIF_REPO=$WT VERIF_OUTDIR=$OUT bin/vcheck ${CHECK:-$P} --tier ${TIER:-quick} "$@" > $OUT.log 2>&1; RC=$?
git -C /repo worktree remove --force $WT
echo "$P-$K exit=$RC: $(grep -c '^VIOLATION' $OUT.log) violation lines | $(tail -1 $OUT.log | cut -c1-160)"
grep -A2 '^VIOLATION' $OUT.log | cut -c1-330 | head -${LINES_MAX:-9}
