// Command rewrite reads the current working tree of the repository and emits,
// outside of it, rewritten copies of the files that contain one of the
// nondeterministic statement shapes the simulator must own, plus a go build
// -overlay file that substitutes them.  The repository itself is never written.
//
//	range over a map      -> range over simseam.Keys(m) (canonical order, permuted by the seed)
//	go f(args)            -> simseam.Go(func() { f(args) }) with f and args evaluated by the parent
//	time.AfterFunc(d, f)  -> simseam.AfterFunc(d, f)
//	looplab/fsm           -> stateMu/eventMu become hooked mutexes (they are held across callbacks)
//
// All edits keep every original line on its original line number.
package main

import (
	"encoding/json"
	"flag"
	"fmt"
	"go/ast"
	"go/token"
	"go/types"
	"os"
	"path/filepath"
	"sort"
	"strings"

	"golang.org/x/tools/go/packages"
)

const seamImport = "github.com/apache/yunikorn-core/pkg/simseam"

type edit struct {
	off, end int // replace [off,end) ...
	text     string
	seq      int
}

type fileEdits struct {
	path  string
	src   []byte
	edits []edit
}

type stats struct {
	RangeMap       int            `json:"range_map"`
	RangeMapSorted int            `json:"range_map_sorted_only"`
	RangeMapCount  int            `json:"range_map_count_only"`
	GoStmt         int            `json:"go_stmt"`
	AfterFunc      int            `json:"after_func"`
	Select         int            `json:"select_stmt"`
	KeyTypes       map[string]int `json:"key_types"`
	Files          int            `json:"files_rewritten"`
	Packages       int            `json:"packages"`
	MapsPkgUse     []string       `json:"maps_pkg_use"`
	SyncMapRange   []string       `json:"sync_map_range"`
	FsmPatched     bool           `json:"fsm_patched"`
}

func main() {
	repo := flag.String("repo", "/repo", "repository root")
	out := flag.String("out", "", "scratch output directory (outside the repository)")
	flag.Parse()
	if *out == "" {
		fmt.Fprintln(os.Stderr, "rewrite: -out required")
		os.Exit(2)
	}
	absRepo, _ := filepath.Abs(*repo)
	absOut, _ := filepath.Abs(*out)
	if strings.HasPrefix(absOut, absRepo+"/") || absOut == absRepo {
		fmt.Fprintln(os.Stderr, "rewrite: -out must be outside the repository")
		os.Exit(2)
	}
	if err := run(absRepo, absOut); err != nil {
		fmt.Fprintln(os.Stderr, "rewrite:", err)
		os.Exit(2)
	}
}

func run(repo, out string) error {
	cfg := &packages.Config{
		Mode: packages.NeedName | packages.NeedFiles | packages.NeedSyntax | packages.NeedTypes |
			packages.NeedTypesInfo | packages.NeedCompiledGoFiles | packages.NeedModule,
		Dir:        repo,
		BuildFlags: []string{"-tags=verif"},
	}
	pkgs, err := packages.Load(cfg, "./pkg/...")
	if err != nil {
		return err
	}
	st := &stats{KeyTypes: map[string]int{}}
	overlay := map[string]string{}
	var problems []string
	for _, p := range pkgs {
		if len(p.Errors) > 0 {
			return fmt.Errorf("package %s: %v", p.PkgPath, p.Errors[0])
		}
		st.Packages++
		if strings.HasSuffix(p.PkgPath, "/pkg/simseam") {
			continue
		}
		sortedOnly := strings.HasSuffix(p.PkgPath, "/pkg/common/resources")
		for i, f := range p.Syntax {
			path := p.CompiledGoFiles[i]
			if !strings.HasPrefix(path, repo+"/") {
				continue
			}
			src, err := os.ReadFile(path)
			if err != nil {
				return err
			}
			fe := &fileEdits{path: path, src: src}
			probs := rewriteFile(p, f, fe, st, sortedOnly)
			problems = append(problems, probs...)
			if len(fe.edits) == 0 {
				continue
			}
			// import
			pos := p.Fset.Position(f.Name.End()).Offset
			fe.add(pos, pos, "; import simseam \""+seamImport+"\"")
			rel := strings.TrimPrefix(path, repo+"/")
			dst := filepath.Join(out, "src", rel)
			if err := os.MkdirAll(filepath.Dir(dst), 0o755); err != nil {
				return err
			}
			if err := os.WriteFile(dst, fe.apply(), 0o644); err != nil {
				return err
			}
			overlay[path] = dst
			st.Files++
		}
	}
	if len(problems) > 0 {
		return fmt.Errorf("statement shapes the rewriter cannot handle:\n  %s", strings.Join(problems, "\n  "))
	}
	// third-party: looplab/fsm mutexes that are held across callbacks into the repository
	fsmDir, err := moduleDir(repo, "github.com/looplab/fsm")
	if err != nil {
		return err
	}
	fsmSrc, err := os.ReadFile(filepath.Join(fsmDir, "fsm.go"))
	if err != nil {
		return err
	}
	s := string(fsmSrc)
	n1 := strings.Count(s, "stateMu sync.RWMutex")
	n2 := strings.Count(s, "eventMu sync.Mutex")
	if n1 != 1 || n2 != 1 || strings.Count(s, "\npackage fsm\n") != 1 {
		return fmt.Errorf("looplab/fsm: unexpected source shape (stateMu %d, eventMu %d)", n1, n2)
	}
	s = strings.Replace(s, "stateMu sync.RWMutex", "stateMu simseam.RWMutex", 1)
	s = strings.Replace(s, "eventMu sync.Mutex", "eventMu simseam.Mutex", 1)
	s = strings.Replace(s, "\npackage fsm\n", "\npackage fsm; import simseam \""+seamImport+"\"\n", 1)
	// files below GOMODCACHE cannot be overlaid: emit a patched copy of the module, to be
	// substituted with a replace directive in the -modfile the check builds with
	fsmOut := filepath.Join(out, "fsm")
	if err := os.MkdirAll(fsmOut, 0o755); err != nil {
		return err
	}
	ents, err := os.ReadDir(fsmDir)
	if err != nil {
		return err
	}
	for _, e := range ents {
		if e.IsDir() || strings.HasSuffix(e.Name(), "_test.go") {
			continue
		}
		if !strings.HasSuffix(e.Name(), ".go") && e.Name() != "go.mod" {
			continue
		}
		b, err := os.ReadFile(filepath.Join(fsmDir, e.Name()))
		if err != nil {
			return err
		}
		if e.Name() == "fsm.go" {
			b = []byte(s)
		}
		if err := os.WriteFile(filepath.Join(fsmOut, e.Name()), b, 0o644); err != nil {
			return err
		}
	}
	st.FsmPatched = true

	ov, _ := json.MarshalIndent(map[string]any{"Replace": overlay}, "", " ")
	if err := os.WriteFile(filepath.Join(out, "overlay.json"), ov, 0o644); err != nil {
		return err
	}
	sj, _ := json.MarshalIndent(st, "", " ")
	if err := os.WriteFile(filepath.Join(out, "rewrite_stats.json"), sj, 0o644); err != nil {
		return err
	}
	fmt.Printf("rewrite: %d packages, %d files, %d range-over-map (+%d sorted-only, %d count-only), %d go, %d AfterFunc, %d select\n",
		st.Packages, st.Files, st.RangeMap, st.RangeMapSorted, st.RangeMapCount, st.GoStmt, st.AfterFunc, st.Select)
	return nil
}

func moduleDir(repo, mod string) (string, error) {
	cfg := &packages.Config{Mode: packages.NeedName | packages.NeedFiles | packages.NeedModule, Dir: repo}
	pkgs, err := packages.Load(cfg, mod)
	if err != nil {
		return "", err
	}
	if len(pkgs) != 1 || len(pkgs[0].GoFiles) == 0 {
		return "", fmt.Errorf("cannot locate module %s", mod)
	}
	return filepath.Dir(pkgs[0].GoFiles[0]), nil
}

func (fe *fileEdits) add(off, end int, text string) {
	fe.edits = append(fe.edits, edit{off: off, end: end, text: text, seq: len(fe.edits)})
}

func (fe *fileEdits) apply() []byte {
	es := fe.edits
	sort.SliceStable(es, func(i, j int) bool {
		if es[i].off != es[j].off {
			return es[i].off < es[j].off
		}
		return es[i].seq < es[j].seq
	})
	var b strings.Builder
	last := 0
	for _, e := range es {
		if e.off < last {
			panic(fmt.Sprintf("%s: overlapping edits at %d", fe.path, e.off))
		}
		b.Write(fe.src[last:e.off])
		b.WriteString(e.text)
		last = e.end
	}
	b.Write(fe.src[last:])
	return []byte(b.String())
}

func rewriteFile(p *packages.Package, f *ast.File, fe *fileEdits, st *stats, sortedOnly bool) []string {
	var problems []string
	fset := p.Fset
	off := func(pos token.Pos) int { return fset.Position(pos).Offset }
	text := func(a, b token.Pos) string { return string(fe.src[off(a):off(b)]) }
	n := 0
	var stack []ast.Node
	ast.Inspect(f, func(node ast.Node) bool {
		if node == nil {
			stack = stack[:len(stack)-1]
			return true
		}
		stack = append(stack, node)
		switch s := node.(type) {
		case *ast.SelectStmt:
			st.Select++
		case *ast.CallExpr:
			if sel, ok := s.Fun.(*ast.SelectorExpr); ok {
				if id, ok := sel.X.(*ast.Ident); ok {
					if pn, ok := p.TypesInfo.Uses[id].(*types.PkgName); ok {
						switch {
						case pn.Imported().Path() == "time" && sel.Sel.Name == "AfterFunc":
							fe.add(off(sel.Pos()), off(sel.End()), "simseam.AfterFunc")
							st.AfterFunc++
						case pn.Imported().Path() == "maps" || strings.HasSuffix(pn.Imported().Path(), "/exp/maps"):
							st.MapsPkgUse = append(st.MapsPkgUse, fmt.Sprintf("%s %s.%s", fset.Position(s.Pos()), pn.Imported().Path(), sel.Sel.Name))
						}
					}
				}
				if sel.Sel.Name == "Range" {
					if t := p.TypesInfo.TypeOf(sel.X); t != nil && strings.Contains(t.String(), "sync.Map") {
						st.SyncMapRange = append(st.SyncMapRange, fset.Position(s.Pos()).String())
					}
				}
			}
		case *ast.GoStmt:
			n++
			call := s.Call
			if call.Ellipsis.IsValid() {
				problems = append(problems, fmt.Sprintf("%s: go statement with variadic spread", fset.Position(s.Pos())))
				return true
			}
			// go F(a, b)  ->  simF := F; simA0, simA1 := a, b; simseam.Go(func() { simF(simA0, simA1) })
			fn := fmt.Sprintf("simF%d", n)
			fe.add(off(s.Go), off(call.Fun.Pos()), fn+" := ")
			var names, vals []string
			for i, a := range call.Args {
				names = append(names, fmt.Sprintf("simA%d_%d", n, i))
				vals = append(vals, text(a.Pos(), a.End()))
			}
			tail := "; "
			if len(names) > 0 {
				tail += strings.Join(names, ", ") + " := " + flatten(strings.Join(vals, ", ")) + "; "
			}
			tail += "simseam.Go(func() { " + fn + "(" + strings.Join(names, ", ") + ") })"
			// keep the number of lines: re-add the newlines the argument list spanned
			tail += strings.Repeat("\n", strings.Count(text(call.Lparen, call.Rparen+1), "\n"))
			fe.add(off(call.Lparen), off(call.Rparen)+1, tail)
			st.GoStmt++
		case *ast.RangeStmt:
			t := p.TypesInfo.TypeOf(s.X)
			if t == nil {
				return true
			}
			mt, ok := t.Underlying().(*types.Map)
			if !ok {
				if tp, ok2 := t.(*types.TypeParam); ok2 {
					problems = append(problems, fmt.Sprintf("%s: range over type parameter %s", fset.Position(s.Pos()), tp))
				}
				return true
			}
			if s.Key == nil && s.Value == nil {
				st.RangeMapCount++
				return true
			}
			n++
			st.KeyTypes[mt.Key().String()]++
			mvar := fmt.Sprintf("simM%d", n)
			okv := fmt.Sprintf("simOK%d", n)
			keysFn := "simseam.Keys"
			if sortedOnly {
				keysFn = "simseam.KeysSorted"
				st.RangeMapSorted++
			} else {
				st.RangeMap++
			}
			// where to put "simM := X;" : before the statement, or before its label
			stmtPos := s.Pos()
			if len(stack) >= 2 {
				if ls, ok := stack[len(stack)-2].(*ast.LabeledStmt); ok && ls.Stmt == s {
					stmtPos = ls.Pos()
				}
			}
			xText := flatten(text(s.X.Pos(), s.X.End()))
			xLines := strings.Count(text(s.For, s.Body.Lbrace+1), "\n")
			fe.add(off(stmtPos), off(stmtPos), mvar+" := "+xText+"; ")
			isBlank := func(e ast.Expr) bool {
				if e == nil {
					return true
				}
				id, ok := e.(*ast.Ident)
				return ok && id.Name == "_"
			}
			var hdr string
			switch s.Tok {
			case token.DEFINE:
				key := fmt.Sprintf("simK%d", n)
				if !isBlank(s.Key) {
					key = text(s.Key.Pos(), s.Key.End())
				}
				hdr = "for _, " + key + " := range " + keysFn + "(" + mvar + ") { "
				if !isBlank(s.Value) {
					hdr += text(s.Value.Pos(), s.Value.End()) + ", " + okv + " := " + mvar + "[" + key + "]; if !" + okv + " { continue }; "
				} else {
					hdr += "if _, " + okv + " := " + mvar + "[" + key + "]; !" + okv + " { continue }; "
				}
			case token.ASSIGN:
				key := fmt.Sprintf("simK%d", n)
				hdr = "for _, " + key + " := range " + keysFn + "(" + mvar + ") { "
				if !isBlank(s.Value) {
					hdr += "var " + okv + " bool; " + text(s.Value.Pos(), s.Value.End()) + ", " + okv + " = " + mvar + "[" + key + "]; if !" + okv + " { continue }; "
				} else {
					hdr += "if _, " + okv + " := " + mvar + "[" + key + "]; !" + okv + " { continue }; "
				}
				if !isBlank(s.Key) {
					hdr += text(s.Key.Pos(), s.Key.End()) + " = " + key + "; "
				}
			default:
				problems = append(problems, fmt.Sprintf("%s: range with token %s", fset.Position(s.Pos()), s.Tok))
				return true
			}
			hdr += strings.Repeat("\n", xLines)
			fe.add(off(s.For), off(s.Body.Lbrace)+1, hdr)
		}
		return true
	})
	return problems
}

// flatten puts a (possibly multi-line) expression on one line.
func flatten(s string) string {
	if !strings.Contains(s, "\n") {
		return s
	}
	lines := strings.Split(s, "\n")
	for i := range lines {
		lines[i] = strings.TrimSpace(lines[i])
		// drop trailing line comments: they would swallow the rest of the joined line
		if j := strings.Index(lines[i], "//"); j >= 0 && !strings.Contains(lines[i][:j], "\"") {
			lines[i] = strings.TrimSpace(lines[i][:j])
		}
	}
	return strings.Join(lines, " ")
}
