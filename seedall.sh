#!/bin/bash
# runs seedtest for a list of "PROP k" pairs sequentially, logging to /verif/seeded/results.log
while read P K; do
  echo "=== $P-$K $(date +%T)" >> /verif/seeded/results.log
  /verif/seedtest.sh $P $K >> /verif/seeded/results.log 2>&1
done
