#!/bin/bash
# batch.sh <scratch> <profile> <from> <to> <steps> [extra json fields]
S=$1; P=$2; A=$3; B=$4; N=$5; X=$6
mkdir -p $S/o
seq $A $B | xargs -P 16 -I{} sh -c "VERIF_RUN_JSON='{\"seed\": {}, \"profile\": \"$P\", \"steps\": $N, \"policy\": \"rtc\" $X}' VERIF_OUT=$S/o/{}.json GOMAXPROCS=1 $S/sim.test -test.run TestSim >$S/o/{}.log 2>&1 || echo FAIL {}"
python3 - <<PY
import json,glob,collections
sigs=collections.Counter(); ex={}
n=0
for f in glob.glob('$S/o/*.json'):
    try: r=json.load(open(f))
    except Exception as e: print('bad',f); continue
    n+=1
    for v in (r['violations'] or []):
        if v['sig'] not in ex: ex[v['sig']]=(r['cfg']['seed'],v['step'],v['msg'][:260])
        sigs[v['sig']]+=1
print('runs',n)
for s,c in sigs.most_common(): print(c,s,ex[s])
PY
