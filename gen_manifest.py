#!/usr/bin/env python3
# Generates /verif/MANIFEST.json from the table below (kept in one place so that it stays consistent).
import json, subprocess

claimed = {
 "C01": ("exploration", "seeded search over histories, schedules and confirmation faults on the real scheduler stack; every scheduler-originated binding is checked against the shim-view node ledger of the pre-step world (capacity - foreign - allocated, schedulable, reservation, required node, accepting predicate) and the node equations are recomputed at every quiescent point", "3, 4 (C01)"),
 "C03": ("exploration", "seeded search; all conservation equalities (application, leaf, parent, root vs nodes, node vs application listing, shim view vs core view) are recomputed from leaf facts at every quiescent point, and every run ends with a drain phase after which all books must be zero", "3, 4 (C03)"),
 "C04": ("exploration", "seeded search; the core->shim stream is checked event by event against the shim-view protocol automaton (refinement), with confirmations late, duplicated, lost", "3, 4 (C04)"),
 "C09": ("exploration", "seeded search; the application, node and queue views of the reservation relation are compared at every quiescent point and every binding is checked against reservations of the pre-step world", "3, 4 (C09)"),
 "C10": ("exploration", "seeded search on the fake clock; state logs and reported application updates are checked against the documented transition relation at every quiescent point", "3, 4 (C10)"),
 "C11": ("exploration", "seeded search over max-applications hierarchies; the admission inequality is evaluated on the pre-step queue DAO for every first allocation and the counter bounds at every quiescent point", "3, 4 (C11)"),
}
not_applicable = {
 "C18": "pure functions of their arguments (resource arithmetic, quantity parsing): no schedule, clock, fault or history for a simulator to search; see DESIGN.md section 5",
}
pending = {
 "C02": "check under construction in this round (queue maxima oracle)",
 "C05": "check under construction in this round (user/group limits oracle)",
 "C06": "check under construction in this round (gang automaton)",
 "C07": "check under construction in this round (preemption victim eligibility)",
 "C08": "check under construction in this round (guarantee arithmetic)",
 "C12": "check under construction in this round (restart enumeration)",
 "C13": "check under construction in this round (malformed request catalogue)",
 "C14": "check under construction in this round (race build, interleaved policies)",
 "C15": "check under construction in this round (configuration load)",
 "C16": "check under construction in this round (reload relation)",
 "C17": "check under construction in this round (placement reference)",
 "C19": "check under construction in this round (sort order under permuted storage)",
 "C20": "check under construction in this round (event ring model)",
}
try:
    exec(open('/verif/manifest_table.py').read())
except FileNotFoundError:
    pass

hooks_commits = subprocess.run(["git","-C","/repo","log","--format=%h %s"],capture_output=True,text=True).stdout.splitlines()
hook_ids = [l.split()[0] for l in hooks_commits if "verif hooks" in l]
baseline = json.load(open('/root/.vp/BASELINE.json'))

checks = []
for pid in sorted(claimed):
    level, text, ref = claimed[pid]
    checks.append({
        "property_id": pid,
        "quick_cmd": f"bin/vcheck {pid} --tier quick",
        "thorough_cmd": f"bin/vcheck {pid} --tier thorough",
        "evidence_file": f"/verif/evidence/{pid}.json",
        "replay_cmd_template": "bin/vcheck --replay {path}",
        "engine": "dst",
        "level_claimed": {"category": level, "text": text, "design_ref": "DESIGN.md section " + ref},
        "level_note": "trusted: Go toolchain and runtime (testing/synctest, race detector), the source rewriter (range-over-map, go, time.AfterFunc; validated by running the repository's own suite on the rewritten tree), the lock model of the conductor, the harness' reference models; the shim is simulated; sampling, not proof",
        "technique": "deterministic simulation with fault injection (seeded schedule at lock granularity, fake clock, seeded map order, shim/transport faults; reference-model oracles over the recorded history and at quiescent points)",
    })
m = {
 "version": 1,
 "setup_cmd": "bash /verif/setup.sh",
 "hooks": {
   "guard": "verif",
   "enable": "go build tag: go test -c -tags verif -overlay <generated> (see build.sh); without the tag none of the hook files are compiled",
   "baseline_off_cmd": baseline["cmd"],
   "source_commits": hook_ids,
   "add_only": True,
 },
 "engines": [{"name": "dst", "path": "/verif/sim", "serves_properties": sorted(claimed), "kind_free_text": "deterministic simulation: whole real scheduler stack in one testing/synctest bubble under a seeded lock-granular conductor with a simulated shim, fake clock, seeded map order, fault injection; one run per process, orchestrated by /verif/vcheck"}],
 "checks": checks,
 "not_applicable": [{"property_id": k, "reason": v} for k, v in sorted({**not_applicable, **pending}.items()) if k not in claimed],
 "notes": "Exit 2 from a check means harness or build trouble, never a verdict. Known findings are in /verif/known_findings.json.",
}
json.dump(m, open('/verif/MANIFEST.json','w'), indent=1)
print("claimed", sorted(claimed), "not_applicable", [x["property_id"] for x in m["not_applicable"]])
