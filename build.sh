#!/bin/bash
# build.sh <scratch-dir> [race]: rewrite /repo's working tree into <scratch>, build the sim test binary there.
set -e
S=$1
R=${VERIF_REPO:-/repo}   # the tree under test: /repo unless overridden for experiments on a scratch worktree
export GOFLAGS=-mod=mod GOPROXY=off
mkdir -p "$S"
/verif/bin/rewrite -repo "$R" -out "$S" >"$S/rewrite.log"
sed "s#^replace github.com/apache/yunikorn-core => /repo#replace github.com/apache/yunikorn-core => $R\nreplace github.com/looplab/fsm => $S/fsm#" /verif/sim/go.mod > "$S/go.mod"
cp "$R/go.sum" "$S/go.sum"
[ -f /verif/sim/go.sum ] && cat /verif/sim/go.sum >> "$S/go.sum"
RACE=""
OUT="$S/sim.test"
if [ "$2" = race ]; then RACE="-race"; OUT="$S/sim.race.test"; fi
cd /verif/sim && go test -c $RACE -tags verif -modfile="$S/go.mod" -overlay "$S/overlay.json" -o "$OUT" .
