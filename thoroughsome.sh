#!/bin/bash
export GOFLAGS=-mod=mod GOPROXY=off
cd /verif
B=${1:-400}; shift
for p in "$@"; do
  t0=$(date +%s)
  bin/vcheck $p --tier thorough --budget $B > /var/tmp/thorough_$p.log 2>&1; rc=$?
  echo "$p exit=$rc $(( $(date +%s)-t0 ))s $(grep -c '^VIOLATION' /var/tmp/thorough_$p.log) violations, $(grep -c '^KNOWN' /var/tmp/thorough_$p.log) known | $(tail -1 /var/tmp/thorough_$p.log | cut -c1-200)"
done
