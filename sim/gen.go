package sim

import (
	"fmt"
	"sort"
	"time"
)

var profiles = map[string]Profile{
	// plain capacity / accounting / protocol workloads
	"base": {Name: "base", Depth: 2, Limits: 0.0, MaxApps: 0.15, Guarantees: 0.2, Gang: 0.15, TightMax: 0.5, Fair: 0.3, PriorityProps: 0.2, Templates: 0.2},
	// queue maxima and dynamic queues
	"quota": {Name: "quota", Depth: 3, Limits: 0.1, MaxApps: 0.1, Guarantees: 0.3, Gang: 0.1, TightMax: 0.9, Fair: 0.3, PriorityProps: 0.1, Templates: 0.6, Rules: true},
	// user and group limits
	"limits": {Name: "limits", Depth: 2, Limits: 0.8, MaxApps: 0.1, Guarantees: 0.1, Gang: 0.1, TightMax: 0.5, Fair: 0.2, PriorityProps: 0.1, Templates: 0.2},
	// gang scheduling
	"gang": {Name: "gang", Depth: 2, Limits: 0.1, MaxApps: 0.1, Guarantees: 0.1, Gang: 0.8, TightMax: 0.4, Fair: 0.0, PriorityProps: 0.1, Templates: 0.1},
	// preemption
	"preempt": {Name: "preempt", Depth: 2, Limits: 0.0, MaxApps: 0.0, Guarantees: 0.9, Gang: 0.1, TightMax: 0.5, Fair: 0.2, PriorityProps: 0.5, Templates: 0.1, Preemption: true, QuotaPreempt: true},
	// max-applications
	"maxapps": {Name: "maxapps", Depth: 3, Limits: 0.0, MaxApps: 0.8, Guarantees: 0.1, Gang: 0.3, TightMax: 0.3, Fair: 0.2, PriorityProps: 0.1, Templates: 0.5, Rules: true},
	// placement
	"place": {Name: "place", Depth: 3, Limits: 0.1, MaxApps: 0.2, Guarantees: 0.1, Gang: 0.1, TightMax: 0.3, Fair: 0.2, PriorityProps: 0.1, Templates: 0.6, Rules: true, ACLs: 0.6},
	// sorting
	"sort": {Name: "sort", Depth: 2, Limits: 0.0, MaxApps: 0.0, Guarantees: 0.6, Gang: 0.05, TightMax: 0.6, Fair: 0.7, PriorityProps: 0.7, Templates: 0.1},
}

// weights of operation kinds, biased per profile
type weights map[string]int

func (s *Sim) opWeights() weights {
	w := weights{"sched": 34, "ask": 14, "app_add": 6, "release": 8, "complete": 3, "app_remove": 2, "node_update": 2, "node_drain": 2,
		"node_undrain": 2, "node_remove": 1, "node_add": 2, "advance": 9, "foreign": 2, "resize": 1, "rm_place": 1, "tick": 3}
	switch s.pf.Name {
	case "gang":
		w["advance"] = 12
		w["node_remove"] = 2
	case "preempt":
		w["advance"] = 16
		w["tick"] = 8
		w["release"] = 3
		w["complete"] = 1
		w["ask"] = 18
		w["node_remove"] = 0
		w["resize"] = 0
	case "maxapps":
		w["app_add"] = 10
		w["complete"] = 6
	case "place":
		w["app_add"] = 14
		w["tick"] = 5
	}
	if s.faultOn("node_loss") {
		w["node_remove"] += 2
	}
	if s.faultOn("app_remove_live") {
		w["app_remove"] += 3
	}
	if s.faultOn("reload_valid") || s.faultOn("reload_invalid") {
		w["reload"] = 5
	}
	if (s.faultOn("reload_valid") || s.faultOn("reload_invalid")) && s.post != nil {
		// a queue is draining: the cleaner decides about it
		for _, q := range s.post.Queues {
			if q.Status == "Draining" {
				w["tick"] += 6
				break
			}
		}
	}
	if s.pf.QuotaPreempt && s.post != nil {
		// a queue sits above its configured maximum: the quota preemption tick has work, more than once
		for _, path := range sortedKeys(s.post.Queues) {
			q, spec := s.post.Queues[path], s.conf.Find(path)
			if spec == nil || len(spec.Max) == 0 {
				continue
			}
			over := false
			for t, m := range spec.Max {
				if q.Alloc[t] > m {
					over = true
				}
			}
			if over {
				w["tick"] += 8
				w["advance"] += 6
				break
			}
		}
	}
	if s.faultOn("malformed") {
		w["malformed"] = 8
	}
	if s.faultOn("xchan_reorder") {
		w["batch"] = 5
		if s.cfg.Race {
			w["batch"] = 30
		}
	}
	if s.faultOn("req_dup") {
		w["dup"] = 3
	}
	if s.faultOn("deadline_race") {
		w["timed"] = 6
	}
	if s.faultOn("rest_read") {
		w["rest"] = 4
	}
	if s.faultOn("confirm_late") {
		w["swap_race"] = 4
		// a replacement is waiting for its confirmation right now: this is the moment to touch that application
		for _, o := range s.shim.Owed {
			if o.Type.String() == "PLACEHOLDER_REPLACED" {
				w["swap_race"] = 16
				break
			}
		}
	}
	if s.faultOn("deadline_race") {
		// an application is Completing, or a gang application waits for its placeholder timeout: align with the deadline
		for _, id := range s.shim.liveAppIDs() {
			a := s.shim.Apps[id]
			if n := len(a.States); (n > 0 && a.States[n-1] == "Completing") || (a.Gang && a.TimeoutMs > 0 && a.FirstPhAtMs > 0) {
				w["timed"] = 18
				break
			}
		}
	}
	return w
}

func (s *Sim) pickKind(w weights) string {
	keys := sortedKeys(w)
	total := 0
	for _, k := range keys {
		total += w[k]
	}
	x := s.rng.Intn(total)
	for _, k := range keys {
		if x < w[k] {
			return k
		}
		x -= w[k]
	}
	return keys[0]
}

func (s *Sim) userFor(name string) UserSpec {
	for _, u := range s.world.Users {
		if u.Name == name {
			return u
		}
	}
	return s.world.Users[0]
}

func (s *Sim) boundAllocs() []*MAlloc {
	var out []*MAlloc
	for _, k := range s.shim.sortedAllocKeys() {
		if m := s.shim.Allocs[k]; m.Status == stBound {
			out = append(out, m)
		}
	}
	return out
}

func (s *Sim) pendingAsks() []*MAlloc {
	var out []*MAlloc
	for _, k := range s.shim.sortedAllocKeys() {
		if m := s.shim.Allocs[k]; m.Status == stPending {
			out = append(out, m)
		}
	}
	return out
}

// maxNodeCap: the largest registered node, used to size asks so that they almost fit.
func (s *Sim) maxNodeCap() Res {
	out := Res{"vcore": 4, "memory": 4}
	for _, id := range s.shim.liveNodeIDs() {
		for k, v := range s.shim.Nodes[id].Cap {
			if v > out[k] {
				out[k] = v
			}
		}
	}
	return out
}

func (s *Sim) genAskRes() Res {
	r := s.rng
	mx := s.maxNodeCap()
	out := Res{}
	big := r.Bool(0.25)
	for _, t := range []string{"vcore", "memory"} {
		if r.Bool(0.85) {
			hi := int(mx[t]/3) + 1
			if big {
				hi = int(mx[t])
			}
			if hi < 1 {
				hi = 1
			}
			out[t] = int64(r.Range(1, hi))
		}
	}
	if mx["gpu"] > 0 && r.Bool(0.2) {
		out["gpu"] = int64(r.Range(1, int(mx["gpu"])))
	} else if r.Bool(0.02) {
		out["gpu"] = 1 // a type no node may provide
	}
	if len(out) == 0 {
		out["vcore"] = 1
	}
	return out
}

func (s *Sim) genApp() Op {
	r := s.rng
	s.nApp++
	u := pick(r, s.world.Users)
	a := &AppArgs{ID: fmt.Sprintf("app-%d", s.nApp), User: u.Name, Groups: u.Groups, Tags: map[string]string{}}
	leaves := s.conf.Leaves()
	if len(leaves) == 0 {
		leaves = []string{"root.nosuch"}
	}
	if len(s.conf.Rules) > 0 {
		// with placement rules the requested name is just one input
		switch r.Intn(4) {
		case 0:
			a.Queue = ""
		case 1:
			a.Queue = pick(r, leaves)
		case 2:
			a.Queue = "root." + pick(r, []string{"a", "b", "c"}) + "." + pick(r, []string{"dyn1", "dyn2", "a"})
		case 3:
			a.Queue = pick(r, []string{"dyn1", "a", "root.zz", "a.b", "root.@recovery@", "@recovery@", "root.@Recovery@"})
		}
		a.Tags["namespace"] = pick(r, []string{"ns1", "ns2", "a", "dev"})
		if r.Bool(0.05) {
			a.Tags["namespace"] = "@recovery@"
		}
		if r.Bool(0.3) {
			a.Tags["namespace.resourcequota"] = genRes(r, 2, 10, 0.7).tagJSON()
		}
		if r.Bool(0.2) {
			a.Tags["namespace.resourcemaxapps"] = fmt.Sprint(r.Range(1, 3))
		}
	} else {
		a.Queue = pick(r, leaves)
		if r.Bool(0.04) {
			a.Queue = "root.nosuch"
		}
	}
	if r.Bool(0.03) {
		// a submission that must be rejected: no user
		a.User = ""
		a.Groups = nil
	}
	if r.Bool(s.pf.Gang) {
		a.GangStyle = pick(r, []string{"Soft", "Hard"})
		a.TimeoutMs = pick(r, []int64{2000, 10000, 60000, 0})
		ntg := r.Range(1, 2)
		for i := 0; i < ntg; i++ {
			a.TaskGroups = append(a.TaskGroups, TaskGroup{Name: fmt.Sprintf("tg%d", i), Count: r.Range(1, 3), Res: s.genAskRes()})
		}
	}
	return Op{Kind: "app_add", App: a}
}

func (s *Sim) genAsks(appID string) Op {
	r := s.rng
	app := s.shim.Apps[appID]
	n := r.Range(1, 3)
	op := Op{Kind: "ask"}
	for i := 0; i < n; i++ {
		s.nAsk++
		a := AskArgs{Key: fmt.Sprintf("%s-k%d", appID, s.nAsk), App: appID, Res: s.genAskRes()}
		if r.Bool(0.3) {
			a.Priority = int32(r.Range(-2, 5))
		}
		// directed: the queue (or an ancestor) forbids a type with an explicit zero in its maximum - ask for it
		if app != nil && app.Status == "accepted" && r.Bool(0.35) {
			if q := s.appQueue(appID); q != "" {
				em := s.conf.effMax(q)
				mx := s.maxNodeCap()
				for _, t := range resTypes {
					if v, ok := em[t]; ok && v == 0 && mx[t] > 0 {
						a.Res[t] = 1
						s.probe("directed_ask_for_forbidden_type")
						break
					}
				}
			}
		}
		a.PreemptSelf = r.Bool(0.8)
		a.PreemptOther = r.Bool(0.6)
		if s.pf.Preemption {
			a.PreemptOther = r.Bool(0.9)
		}
		// directed (C08): another leaf is at or below its guarantee on one type and above it on another one - ask for the
		// first type only, so that a preemption on behalf of this ask must not touch that leaf
		if s.pf.Preemption && s.post != nil && app != nil && r.Bool(0.3) {
			own := s.appQueue(appID)
		find:
			for _, path := range sortedKeys(s.post.Queues) {
				q := s.post.Queues[path]
				if q == nil || !q.Leaf || path == own || len(q.Guar) < 2 {
					continue
				}
				for _, t := range sortedKeys(q.Guar) {
					if q.Alloc[t] == 0 || q.Alloc[t] > q.Guar[t] {
						continue
					}
					for _, u := range sortedKeys(q.Guar) {
						if u != t && q.Alloc[u] > q.Guar[u] {
							a.Res = Res{t: int64(r.Range(1, 2))}
							s.probe("directed_ask_single_type_vs_mixed_guarantee")
							break find
						}
					}
				}
			}
		}
		if r.Bool(0.05) {
			a.Originator = true
		}
		if ids := s.shim.liveNodeIDs(); len(ids) > 0 && r.Bool(0.06) {
			a.RequiredNode = pick(r, ids)
		}
		if app != nil && app.Gang && len(app.TaskGroups) > 0 && r.Bool(0.8) {
			tgs := sortedKeys(app.TaskGroups)
			a.TaskGroup = pick(r, tgs)
			// real asks are usually the placeholder's size, sometimes smaller or larger
			if ph := s.phRes(appID, a.TaskGroup); ph != nil {
				a.Res = ph.Clone()
				switch r.Intn(8) {
				case 0, 1:
					// smaller than the placeholder
					for _, k := range sortedKeys(a.Res) {
						if a.Res[k] > 1 && r.Bool(0.7) {
							a.Res[k]--
						}
					}
				case 2:
					// larger on a type the placeholder has
					for _, k := range sortedKeys(a.Res) {
						a.Res[k]++
						break
					}
				case 3:
					// asks for a type the placeholder does not have at all; half of the time one that the queue path
					// limits, and more of it than the limit leaves (such an ask can never be allocated the normal way)
					if q := s.appQueue(appID); q != "" && r.Bool(0.5) {
						em := s.conf.effMax(q)
						done := false
						for _, t := range resTypes {
							if _, has := a.Res[t]; !has {
								if mv, ok := em[t]; ok {
									a.Res[t] = mv + 1
									done = true
									break
								}
							}
						}
						if done {
							break
						}
					}
					for _, t := range resTypes {
						if _, ok := a.Res[t]; !ok {
							a.Res[t] = int64(r.Range(1, 2))
							break
						}
					}
				}
			}
		}
		op.Asks = append(op.Asks, a)
	}
	return op
}

func (s *Sim) phRes(appID, tg string) Res {
	for _, k := range s.shim.sortedAllocKeys() {
		m := s.shim.Allocs[k]
		if m.App == appID && m.Placeholder && m.TaskGroup == tg {
			return m.Res
		}
	}
	return nil
}

// placeholderAsks follows the submission of a gang application.
func (s *Sim) placeholderAsks(a *AppArgs) Op {
	op := Op{Kind: "ask"}
	for _, tg := range a.TaskGroups {
		for i := 0; i < tg.Count; i++ {
			op.Asks = append(op.Asks, AskArgs{Key: fmt.Sprintf("%s-ph-%s-%d", a.ID, tg.Name, i), App: a.ID, Res: tg.Res.Clone(), Placeholder: true, TaskGroup: tg.Name, PreemptSelf: true})
		}
	}
	return op
}

func (s *Sim) genAdvance() Op {
	r := s.rng
	var ms int64
	if s.pf.Preemption && r.Bool(0.6) {
		return Op{Kind: "advance", Ms: int64(r.Range(1000, 40000)), Quantum: 1000}
	}
	switch x := r.Intn(100); {
	case x < 45:
		ms = int64(r.Range(0, 3000))
	case x < 75:
		ms = int64(r.Range(3000, 40000))
	case x < 92:
		ms = int64(r.Range(40000, 1200000))
	default:
		ms = int64(r.Range(1200000, 4000000))
	}
	q := int64(1000)
	if ms > 120000 {
		q = ms / 60
	}
	if s.faultOn("clock_jump") && r.Bool(0.3) {
		q = ms
		s.faults["clock_jump"]++
		if r.Bool(0.2) {
			ms = int64(r.Range(3600, 300000)) * 1000
			q = ms
		}
	}
	return Op{Kind: "advance", Ms: ms, Quantum: q}
}

// genOp draws the next operation from the current shim-view state.
func (s *Sim) genOp() (Op, bool) {
	for try := 0; try < 20; try++ {
		if op, ok := s.genOpOf(s.pickKind(s.opWeights())); ok {
			return op, true
		}
	}
	return Op{Kind: "sched"}, true
}

// genOpOf draws an operation of the given kind from the current shim-view state.
func (s *Sim) genOpOf(kind string) (Op, bool) {
	r := s.rng
	sh := s.shim
	for try := 0; try < 1; try++ {
		switch kind {
		case "sched":
			return Op{Kind: "sched"}, true
		case "ask":
			apps := sh.liveAppIDs()
			if len(apps) == 0 {
				continue
			}
			return s.genAsks(pick(r, apps)), true
		case "app_add":
			if len(sh.liveAppIDs()) >= 10 {
				continue
			}
			return s.genApp(), true
		case "release":
			// a bound allocation or an outstanding ask
			cands := append(s.boundAllocs(), s.pendingAsks()...)
			if len(cands) == 0 {
				continue
			}
			m := pick(r, cands)
			typ := "STOPPED_BY_RM"
			if s.faultOn("release_any_type") && m.Status == stBound && r.Bool(0.5) {
				// an unsolicited "confirmation": the shim releases a bound allocation with a type the core uses for
				// releases of its own (legal on the wire; the pod was lost while the shim thought of a time out)
				typ = pick(r, []string{"TIMEOUT", "PREEMPTED_BY_SCHEDULER"})
				s.faults["release_any_type"]++
				return Op{Kind: "release", Key: m.Key, AppID: m.App, Type: typ, Fault: "release_any_type"}, true
			}
			return Op{Kind: "release", Key: m.Key, AppID: m.App, Type: typ}, true
		case "complete":
			apps := sh.liveAppIDs()
			if len(apps) == 0 {
				continue
			}
			return Op{Kind: "complete", AppID: pick(r, apps)}, true
		case "app_remove":
			apps := sh.liveAppIDs()
			if len(apps) == 0 {
				continue
			}
			id := pick(r, apps)
			if !s.faultOn("app_remove_live") {
				// only applications that have nothing left
				busy := false
				for _, m := range sh.appAllocs(id) {
					if m.Status != stGone {
						busy = true
					}
				}
				if busy {
					continue
				}
			} else {
				s.faults["app_remove_live"]++
			}
			return Op{Kind: "app_remove", AppID: id}, true
		case "node_update":
			ids := sh.liveNodeIDs()
			if len(ids) == 0 {
				continue
			}
			id := pick(r, ids)
			cap := sh.Nodes[id].Cap.Clone()
			for _, k := range sortedKeys(cap) {
				if r.Bool(0.6) {
					cap[k] += int64(r.Range(-4, 4))
					if cap[k] < 0 {
						cap[k] = 0
					}
				}
			}
			if r.Bool(0.1) {
				delete(cap, "memory")
			}
			s.faults["node_shrink_or_grow"]++
			return Op{Kind: "node_update", Node: id, Cap: cap}, true
		case "node_drain", "node_undrain":
			ids := sh.liveNodeIDs()
			if len(ids) == 0 {
				continue
			}
			return Op{Kind: kind, Node: pick(r, ids)}, true
		case "node_remove":
			ids := sh.liveNodeIDs()
			if len(ids) <= 1 && !r.Bool(0.2) {
				continue
			}
			if len(ids) == 0 {
				continue
			}
			s.faults["node_loss"]++
			return Op{Kind: "node_remove", Node: pick(r, ids)}, true
		case "node_add":
			if len(sh.liveNodeIDs()) >= 6 {
				continue
			}
			// a new node, or one that was removed comes back
			var gone []string
			for id, n := range sh.Nodes {
				if n.Status == "removed" {
					gone = append(gone, id)
				}
			}
			sort.Strings(gone)
			id := ""
			if len(gone) > 0 && r.Bool(0.6) {
				id = pick(r, gone)
			} else {
				s.nNode++
				id = fmt.Sprintf("x%d", s.nNode)
			}
			cap := Res{"vcore": int64(r.Range(2, 16)), "memory": int64(r.Range(2, 16))}
			return Op{Kind: "node_add", Node: id, Cap: cap, Drain: r.Bool(0.15)}, true
		case "advance":
			return s.genAdvance(), true
		case "foreign":
			ids := sh.liveNodeIDs()
			if len(ids) == 0 {
				continue
			}
			// add, update or remove a foreign (non-YuniKorn) pod
			var live []string
			for _, k := range sortedKeys(sh.Foreign) {
				if sh.Foreign[k].Status == stBound {
					live = append(live, k)
				}
			}
			if len(live) > 0 && r.Bool(0.5) {
				k := pick(r, live)
				if r.Bool(0.5) {
					return Op{Kind: "release", Key: k, AppID: ""}, true
				}
				return Op{Kind: "ask", Asks: []AskArgs{{Key: k, Res: Res{"vcore": int64(r.Range(1, 6)), "memory": int64(r.Range(0, 6))}.Prune(), Node: sh.Foreign[k].Node, Foreign: "default"}}}, true
			}
			s.nAsk++
			s.faults["occupied_change"]++
			return Op{Kind: "ask", Asks: []AskArgs{{Key: fmt.Sprintf("foreign-%d", s.nAsk), Res: Res{"vcore": int64(r.Range(1, 5)), "memory": int64(r.Range(1, 5))}, Node: pick(r, ids), Foreign: pick(r, []string{"default", "static"})}}}, true
		case "resize":
			cands := s.boundAllocs()
			if len(cands) == 0 {
				continue
			}
			m := pick(r, cands)
			nr := m.Res.Clone()
			for _, k := range sortedKeys(nr) {
				nr[k] += int64(r.Range(-1, 2))
				if nr[k] < 1 {
					nr[k] = 1
				}
			}
			if nr.Eq(m.Res) {
				continue
			}
			a := AskArgs{Key: m.Key, App: m.App, Res: nr, Priority: m.Priority, Placeholder: m.Placeholder, TaskGroup: m.TaskGroup, RequiredNode: m.RequiredNode,
				PreemptSelf: m.PreemptSelf, PreemptOther: m.PreemptOther, Originator: m.Originator, Node: m.Node}
			s.faults["resize"]++
			return Op{Kind: "ask", Asks: []AskArgs{a}, Fault: "resize"}, true
		case "rm_place":
			apps := sh.liveAppIDs()
			ids := sh.liveNodeIDs()
			if len(apps) == 0 || len(ids) == 0 {
				continue
			}
			if pend := s.pendingAsks(); len(pend) > 0 && r.Bool(0.5) {
				// the RM binds an ask itself that the scheduler still has pending (possibly reserved elsewhere)
				m := pick(r, pend)
				if !m.Placeholder {
					s.faults["rm_placed_pending"]++
					return Op{Kind: "ask", Asks: []AskArgs{{Key: m.Key, App: m.App, Res: m.Res.Clone(), Priority: m.Priority, TaskGroup: m.TaskGroup, RequiredNode: m.RequiredNode,
						PreemptSelf: m.PreemptSelf, PreemptOther: m.PreemptOther, Originator: m.Originator, Node: pick(r, ids)}}, Fault: "rm_placed_pending"}, true
				}
			}
			s.nAsk++
			app := pick(r, apps)
			s.faults["rm_placed"]++
			return Op{Kind: "ask", Asks: []AskArgs{{Key: fmt.Sprintf("%s-rm%d", app, s.nAsk), App: app, Res: s.genAskRes(), Node: pick(r, ids), PreemptSelf: true}}, Fault: "rm_placed"}, true
		case "tick":
			if s.post != nil {
				for _, path := range sortedKeys(s.post.Queues) {
					if s.post.Queues[path].Status == "Draining" && r.Bool(0.7) {
						return Op{Kind: "tick", Type: "cleanup"}, true
					}
				}
				if s.pf.QuotaPreempt {
					for _, path := range sortedKeys(s.post.Queues) {
						q, spec := s.post.Queues[path], s.conf.Find(path)
						if spec == nil {
							continue
						}
						for t, m := range spec.Max {
							if q.Alloc[t] > m && r.Bool(0.5) {
								return Op{Kind: "tick", Type: "quota"}, true
							}
						}
					}
				}
			}
			return Op{Kind: "tick", Type: pick(r, []string{"quota", "inspect", "cleanup", "cleanup"})}, true
		case "dup":
			// resend a recent request
			if len(s.ops) == 0 {
				continue
			}
			for i := len(s.ops) - 1; i >= 0 && i > len(s.ops)-8; i-- {
				o := s.ops[i]
				if o.Kind == "ask" || o.Kind == "app_add" || o.Kind == "node_add" || o.Kind == "release" {
					o.Fault = "req_dup"
					return o, true
				}
			}
			continue
		case "batch":
			// requests that travel on different channels, and a scheduling cycle, in flight at the same time
			var sub []Op
			n := r.Range(2, 3)
			saved := s.cfg.Faults
			for tries := 0; len(sub) < n && tries < 12; tries++ {
				bw := weights{"sched": 5, "ask": 3, "release": 3, "node_update": 2, "node_remove": 1, "node_drain": 1, "app_remove": 1, "foreign": 2, "app_add": 1, "rm_place": 1}
				if saved["rest_read"] {
					bw["rest"] = 4
				}
				if s.cfg.Race {
					bw["app_add"] = 4
					bw["node_add"] = 2
				}
				if saved["reload_valid"] {
					bw["reload"] = 2
				}
				if s.cfg.Auto {
					bw["tick"] = 2
				}
				k := s.pickKind(bw)
				f := map[string]bool{}
				for kk, v := range saved {
					f[kk] = v
				}
				f["xchan_reorder"] = false
				s.cfg.Faults = f
				o, ok := s.genOpOf(k)
				s.cfg.Faults = saved
				if ok && o.Kind != "advance" && o.Kind != "complete" && o.Kind != "batch" && o.Kind != "timed" {
					// one shim does not contradict itself: no two requests of a batch are about the same allocation key
					clash := false
					keys := map[string]bool{}
					if o.Key != "" {
						keys[o.Key] = true
					}
					for _, a := range o.Asks {
						keys[a.Key] = true
					}
					for _, prev := range sub {
						if prev.Key != "" && keys[prev.Key] {
							clash = true
						}
						for _, a := range prev.Asks {
							if keys[a.Key] {
								clash = true
							}
						}
					}
					if !clash {
						sub = append(sub, o)
					}
				}
			}
			// directed: a queue is draining - the cleaner and a reload that touches the tree meet
			if saved["reload_valid"] && s.post != nil && r.Bool(0.5) {
				draining := false
				for _, path := range sortedKeys(s.post.Queues) {
					if s.post.Queues[path].Status == "Draining" {
						draining = true
					}
				}
				if draining {
					if ro, ok := s.genReload(); ok {
						sub = append(sub[:0], ro, Op{Kind: "tick", Type: "cleanup"})
						s.probe("directed_reload_meets_cleaner")
					}
				}
			}
			if len(sub) < 2 {
				continue
			}
			s.faults["xchan_reorder"]++
			return Op{Kind: "batch", Sub: sub}, true
		case "rest":
			s.faults["rest_read"]++
			return Op{Kind: "rest", N: r.Range(1, 4)}, true
		case "timed":
			if op, ok := s.genTimed(); ok {
				return op, true
			}
			continue
		case "swap_race":
			// while a placeholder replacement waits for its (late) confirmation: touch the same application
			var cands []Op
			for _, o := range sh.Owed {
				if o.Type.String() != "PLACEHOLDER_REPLACED" {
					continue
				}
				inflight := ""
				if s.post != nil {
					if a := s.post.Apps[o.App]; a != nil && a.Allocs[o.Key] != nil {
						inflight = a.Allocs[o.Key].ReleaseKey
					}
				}
				for _, m := range sh.appAllocs(o.App) {
					if m.Status == stBound && !m.Placeholder {
						cands = append(cands, Op{Kind: "release", Key: m.Key, AppID: m.App, Type: "STOPPED_BY_RM", Fault: "swap_race"})
					}
					// everything else the application still waits for goes as well: with the in-flight half as its only
					// work left the application turns Completing under the replacement
					if m.Status == stPending && !m.Placeholder && m.Key != inflight && inflight != "" {
						cands = append(cands, Op{Kind: "release", Key: m.Key, AppID: m.App, Type: "STOPPED_BY_RM", Fault: "swap_race"})
					}
				}
				if ph := sh.Allocs[o.Key]; ph != nil && ph.Node != "" && len(sh.liveNodeIDs()) > 1 {
					cands = append(cands, Op{Kind: "node_remove", Node: ph.Node, Fault: "swap_race"})
				}
				if inflight != "" {
					// the application finishes everything else while the replacement waits for its confirmation
					cands = append(cands, Op{Kind: "complete", AppID: o.App, Key: inflight, Fault: "swap_race"}, Op{Kind: "complete", AppID: o.App, Key: inflight, Fault: "swap_race"})
				}
			}
			if len(cands) == 0 {
				continue
			}
			s.faults["swap_race"]++
			return pick(r, cands), true
		default:
			if op, ok := s.genMore(kind); ok {
				return op, true
			}
		}
	}
	return Op{}, false
}

// genTimed aligns an operation with a deadline of the core: the completing timeout of an application,
// the placeholder timeout of a gang application, the reservation delay of an ask.
func (s *Sim) genTimed() (Op, bool) {
	r := s.rng
	sh := s.shim
	now := time.Since(s.simStart).Milliseconds()
	type cand struct {
		at  int64
		sub Op
	}
	var cands []cand
	for _, id := range sh.liveAppIDs() {
		a := sh.Apps[id]
		// Completing since the last reported state: a new ask exactly when the completing timer fires
		if n := len(a.States); n > 0 && a.States[n-1] == "Completing" && a.CompletingAtMs > 0 {
			s.nAsk++
			ask := Op{Kind: "ask", Asks: []AskArgs{{Key: fmt.Sprintf("%s-k%d", id, s.nAsk), App: id, Res: s.genAskRes(), PreemptSelf: true}}}
			cands = append(cands, cand{a.CompletingAtMs + s.world.Knobs.CompletingMs, ask})
		}
		if a.Gang && a.TimeoutMs > 0 {
			// around the placeholder timeout: a real ask, or the release of a placeholder
			for _, base := range []int64{a.SubmitAtMs, a.FirstPhAtMs} {
				if base <= 0 {
					continue
				}
				at := base + a.TimeoutMs
				if tgs := sortedKeys(a.TaskGroups); len(tgs) > 0 {
					s.nAsk++
					tg := pick(r, tgs)
					res := s.phRes(id, tg)
					if res == nil {
						res = s.genAskRes()
					}
					cands = append(cands, cand{at, Op{Kind: "ask", Asks: []AskArgs{{Key: fmt.Sprintf("%s-k%d", id, s.nAsk), App: id, Res: res.Clone(), TaskGroup: tg, PreemptSelf: true}}}})
				}
				for _, m := range sh.appAllocs(id) {
					if m.Placeholder && m.Status == stBound {
						cands = append(cands, cand{at, Op{Kind: "release", Key: m.Key, AppID: id, Type: "STOPPED_BY_RM"}})
						break
					}
				}
			}
		}
	}
	var ok []cand
	for _, c := range cands {
		if c.at > now && c.at-now < 3600000 {
			ok = append(ok, c)
		}
	}
	if len(ok) == 0 {
		return Op{}, false
	}
	c := pick(r, ok)
	s.faults["deadline_race"]++
	return Op{Kind: "timed", Ms: c.at - now, Sub: []Op{c.sub}}, true
}
