package sim

import (
	"fmt"
	"os"
	"testing"
	"testing/synctest"
	"time"

	"go.uber.org/zap"
	"go.uber.org/zap/zapcore"

	"github.com/apache/yunikorn-core/pkg/entrypoint"
	"github.com/apache/yunikorn-core/pkg/events"
	"github.com/apache/yunikorn-core/pkg/log"
	"github.com/apache/yunikorn-core/pkg/simseam"
	"github.com/apache/yunikorn-scheduler-interface/lib/go/si"
)

type smokeCB struct {
	c    *conductorT
	news int
	rels int
	apps int
}

func (s *smokeCB) UpdateAllocation(r *si.AllocationResponse) error {
	s.c.yield("cbAlloc")
	s.news += len(r.New)
	s.rels += len(r.Released)
	return nil
}
func (s *smokeCB) UpdateApplication(r *si.ApplicationResponse) error {
	s.c.yield("cbApp")
	s.apps += len(r.Accepted)
	return nil
}
func (s *smokeCB) UpdateNode(r *si.NodeResponse) error      { s.c.yield("cbNode"); return nil }
func (s *smokeCB) Predicates(args *si.PredicatesArgs) error { s.c.yield("pred"); return nil }
func (s *smokeCB) PreemptionPredicates(args *si.PreemptionPredicatesArgs) *si.PreemptionPredicatesResponse {
	return nil
}
func (s *smokeCB) SendEvent(events []*si.EventRecord) {}
func (s *smokeCB) UpdateContainerSchedulingState(request *si.UpdateContainerSchedulingStateRequest) {
}

const smokeConf = `
partitions:
  - name: default
    queues:
      - name: root
        submitacl: "*"
        queues:
          - name: a
            resources:
              max: {memory: 10, vcore: 10}
          - name: b
`

func TestSmoke(t *testing.T) {
	if os.Getenv("VERIF_SMOKE") == "" {
		t.Skip()
	}
	zc := zap.NewProductionConfig()
	zc.Level = zap.NewAtomicLevelAt(zapcore.FatalLevel)
	log.InitializeLogger(zap.New(zapcore.NewNopCore()), &zc)
	synctest.Test(t, func(t *testing.T) {
		c := newConductor(42)
		cd = c
		simseam.LockHook = hookLock
		simseam.GoHook = hookGo
		simseam.AfterFuncHook = hookAfterFunc
		simseam.PermHook = hookPerm
		c.permEnabled = true
		cb := &smokeCB{c: c}
		drv := c.spawn(func() {
			events.Init()
			sc := entrypoint.StartAllServicesWithManualScheduler()
			_, err := sc.RMProxy.RegisterResourceManager(&si.RegisterResourceManagerRequest{RmID: "rm:1", PolicyGroup: "pg", Version: "1", Config: smokeConf}, cb)
			if err != nil {
				fmt.Println("register:", err)
				os.Exit(2)
			}
			c.settle()
			res := &si.Resource{Resources: map[string]*si.Quantity{"memory": {Value: 8}, "vcore": {Value: 8}}}
			_ = sc.RMProxy.UpdateNode(&si.NodeRequest{RmID: "rm:1", Nodes: []*si.NodeInfo{{NodeID: "n1", Attributes: map[string]string{}, SchedulableResource: res, Action: si.NodeInfo_CREATE}}})
			c.settle()
			_ = sc.RMProxy.UpdateApplication(&si.ApplicationRequest{RmID: "rm:1", New: []*si.AddApplicationRequest{{ApplicationID: "app1", QueueName: "root.a", PartitionName: "default", Ugi: &si.UserGroupInformation{User: "u1"}}}})
			c.settle()
			var allocs []*si.Allocation
			for i := 0; i < 5; i++ {
				allocs = append(allocs, &si.Allocation{AllocationKey: fmt.Sprintf("a%d", i), ApplicationID: "app1", PartitionName: "default",
					ResourcePerAlloc: &si.Resource{Resources: map[string]*si.Quantity{"memory": {Value: 2}, "vcore": {Value: 2}}}})
			}
			_ = sc.RMProxy.UpdateAllocation(&si.AllocationRequest{RmID: "rm:1", Allocations: allocs})
			c.settle()
			for i := 0; i < 8; i++ {
				sc.Scheduler.SimScheduleOnce()
				c.settle()
			}
			fmt.Println("news", cb.news, "apps", cb.apps, "now", time.Now())
			c.advanceClock(40*time.Second, time.Second)
			fmt.Println("after advance", time.Now())
		}, true)
		c.loop(drv)
		fmt.Printf("decisions=%d fast=%d parks=%d locks=%d deadlock=%q stuck=%q sig=%x\n", c.decisions, c.fastPasses, c.parks, c.nlocks, c.deadlock, c.stuck, c.sigHash)
		os.Stdout.Sync()
		os.Exit(0)
	})
}
