package sim

import (
	"fmt"
	"strconv"

	"github.com/apache/yunikorn-scheduler-interface/lib/go/si"
)

// Op is one thing the driver does. Everything the shim ever sends is an Op, so a list of Ops plus the
// seed is a complete replay file.
type Op struct {
	Kind    string    `json:"k"`
	Node    string    `json:"node,omitempty"`
	Cap     Res       `json:"cap,omitempty"`
	Drain   bool      `json:"drain,omitempty"`
	App     *AppArgs  `json:"app,omitempty"`
	AppID   string    `json:"appid,omitempty"`
	Asks    []AskArgs `json:"asks,omitempty"`
	Key     string    `json:"key,omitempty"`
	Type    string    `json:"type,omitempty"`
	N       int       `json:"n,omitempty"`
	Ms      int64     `json:"ms,omitempty"`
	Quantum int64     `json:"q,omitempty"`
	Res     Res       `json:"res,omitempty"`
	Conf    *ConfSpec `json:"conf,omitempty"`
	Raw     string    `json:"raw,omitempty"` // raw configuration text (invalid reloads) / malformed variant
	Fault   string    `json:"fault,omitempty"`
	Sub     []Op      `json:"sub,omitempty"`
}

type AppArgs struct {
	ID         string            `json:"id"`
	Queue      string            `json:"queue"`
	User       string            `json:"user"`
	Groups     []string          `json:"groups,omitempty"`
	Tags       map[string]string `json:"tags,omitempty"`
	GangStyle  string            `json:"gang,omitempty"`
	TimeoutMs  int64             `json:"timeout_ms,omitempty"`
	TaskGroups []TaskGroup       `json:"tg,omitempty"`
	NilUgi     bool              `json:"nilugi,omitempty"`
	PhAsk      Res               `json:"phask,omitempty"` // explicit placeholder total (recovery)
}

type TaskGroup struct {
	Name  string `json:"name"`
	Count int    `json:"count"`
	Res   Res    `json:"res"`
}

type AskArgs struct {
	Key          string `json:"key"`
	App          string `json:"app"`
	Res          Res    `json:"res"`
	Priority     int32  `json:"prio,omitempty"`
	Placeholder  bool   `json:"ph,omitempty"`
	TaskGroup    string `json:"tg,omitempty"`
	RequiredNode string `json:"reqnode,omitempty"`
	PreemptSelf  bool   `json:"pself,omitempty"`
	PreemptOther bool   `json:"pother,omitempty"`
	Originator   bool   `json:"orig,omitempty"`
	Node         string `json:"node,omitempty"` // set: the RM has already placed it (recovery, external placement)
	Foreign      string `json:"foreign,omitempty"`
	NilRes       bool   `json:"nilres,omitempty"`
	NilPolicy    bool   `json:"nilpol,omitempty"`
	CreateSec    int64  `json:"create,omitempty"`
}

func (a *AskArgs) toSI() *si.Allocation {
	al := &si.Allocation{AllocationKey: a.Key, ApplicationID: a.App, PartitionName: "default", Priority: a.Priority,
		Placeholder: a.Placeholder, TaskGroupName: a.TaskGroup, Originator: a.Originator, NodeID: a.Node,
		AllocationTags: map[string]string{}}
	if !a.NilRes {
		al.ResourcePerAlloc = a.Res.ToSI()
	}
	if !a.NilPolicy {
		al.PreemptionPolicy = &si.PreemptionPolicy{AllowPreemptSelf: a.PreemptSelf, AllowPreemptOther: a.PreemptOther}
	}
	if a.RequiredNode != "" {
		al.AllocationTags["yunikorn.apache.org/requiredNode"] = a.RequiredNode
	}
	if a.Foreign != "" {
		al.AllocationTags["foreign"] = a.Foreign
	}
	if a.CreateSec != 0 {
		al.AllocationTags["creationTime"] = strconv.FormatInt(a.CreateSec, 10)
	}
	return al
}

func (a *AppArgs) toSI() *si.AddApplicationRequest {
	req := &si.AddApplicationRequest{ApplicationID: a.ID, QueueName: a.Queue, PartitionName: "default", Tags: map[string]string{}}
	for k, v := range a.Tags {
		req.Tags[k] = v
	}
	if !a.NilUgi {
		req.Ugi = &si.UserGroupInformation{User: a.User, Groups: append([]string(nil), a.Groups...)}
	}
	if a.GangStyle != "" {
		req.GangSchedulingStyle = a.GangStyle
		req.ExecutionTimeoutMilliSeconds = a.TimeoutMs
		total := Res{}
		for _, tg := range a.TaskGroups {
			for i := 0; i < tg.Count; i++ {
				total.AddTo(tg.Res)
			}
		}
		if a.PhAsk != nil {
			total = a.PhAsk
		}
		req.PlaceholderAsk = total.ToSI()
	}
	return req
}

func termType(s string) si.TerminationType {
	if v, ok := si.TerminationType_value[s]; ok {
		return si.TerminationType(v)
	}
	return si.TerminationType_STOPPED_BY_RM
}

func (o Op) String() string {
	switch o.Kind {
	case "ask":
		s := "ask"
		for _, a := range o.Asks {
			s += fmt.Sprintf(" %s/%s%s", a.App, a.Key, a.Res)
			if a.Placeholder {
				s += "(ph:" + a.TaskGroup + ")"
			}
			if a.Node != "" {
				s += "@" + a.Node
			}
		}
		return s
	case "app_add":
		return fmt.Sprintf("app_add %s queue=%s user=%s gang=%s", o.App.ID, o.App.Queue, o.App.User, o.App.GangStyle)
	case "release", "confirm":
		return fmt.Sprintf("%s %s/%s %s %s", o.Kind, o.AppID, o.Key, o.Type, o.Fault)
	case "node_add", "node_update":
		return fmt.Sprintf("%s %s %s", o.Kind, o.Node, o.Cap)
	case "advance":
		return fmt.Sprintf("advance %dms q=%dms", o.Ms, o.Quantum)
	case "batch":
		s := "batch["
		for _, x := range o.Sub {
			s += x.String() + "; "
		}
		return s + "]"
	}
	return fmt.Sprintf("%s %s%s%s", o.Kind, o.Node, o.AppID, o.Key)
}
