package sim

import (
	"encoding/json"
	"fmt"
	"os"
	"runtime"
	"runtime/debug"
	"sort"
	"strings"
	"sync/atomic"
	"testing"
	"testing/synctest"
	"time"

	"go.uber.org/zap"
	"go.uber.org/zap/zapcore"

	"github.com/apache/yunikorn-core/pkg/events"
	"github.com/apache/yunikorn-core/pkg/log"
	"github.com/apache/yunikorn-core/pkg/scheduler/objects"
	"github.com/apache/yunikorn-core/pkg/simseam"
)

// Result is what one simulated run reports to the orchestrator.
type Result struct {
	Cfg        RunCfg            `json:"cfg"`
	Violations []Violation       `json:"violations"`
	Harness    string            `json:"harness,omitempty"` // harness trouble (exit 2)
	Deadlock   string            `json:"deadlock,omitempty"`
	Stuck      string            `json:"stuck,omitempty"`
	Steps      int               `json:"steps"`
	Quiescents int               `json:"quiescents"`
	Decisions  uint64            `json:"decisions"`
	FastPasses uint64            `json:"fast_passes"`
	Parks      uint64            `json:"parks"`
	Locks      int               `json:"locks"`
	MaxParked  int               `json:"max_parked"`
	SchedSig   string            `json:"sched_sig"`
	SimMs      int64             `json:"sim_ms"`
	WallMs     int64             `json:"wall_ms"`
	Faults     map[string]int    `json:"faults"`
	Probes     map[string]int    `json:"probes"`
	States     []uint64          `json:"states,omitempty"`
	NStates    int               `json:"nstates"`
	Bound      int               `json:"bound"`
	SIEvents   int               `json:"si_events"`
	Ops        []Op              `json:"ops,omitempty"`
	Sample     []SIEvent         `json:"sample,omitempty"`
	Notes      []string          `json:"notes,omitempty"`
	OpsSig     string            `json:"ops_sig"`
	UnnamedKey int               `json:"unnamed_keys"`
	Goroutines int               `json:"goroutines"`
	Frozen     []json.RawMessage `json:"frozen,omitempty"`
	ConfYAML   string            `json:"conf_yaml,omitempty"`
}

func envOr(k, d string) string {
	if v := os.Getenv(k); v != "" {
		return v
	}
	return d
}

// TestSim runs exactly one simulated execution described by the JSON file named in VERIF_RUN (or
// given inline in VERIF_RUN_JSON) and writes the result to VERIF_OUT.
func testSim(t *testing.T) {
	path := os.Getenv("VERIF_RUN")
	inline := os.Getenv("VERIF_RUN_JSON")
	if path == "" && inline == "" {
		t.Skip("VERIF_RUN not set")
	}
	var cfg RunCfg
	var raw []byte
	var err error
	if inline != "" {
		raw = []byte(inline)
	} else {
		raw, err = os.ReadFile(path)
		if err != nil {
			fatal2("cannot read run file: " + err.Error())
		}
	}
	if err = json.Unmarshal(raw, &cfg); err != nil {
		fatal2("bad run file: " + err.Error())
	}
	RunOne(t, cfg, os.Getenv("VERIF_OUT"))
}

func RunOne(t *testing.T, cfg RunCfg, out string) {
	zc := zap.NewProductionConfig()
	zc.Level = zap.NewAtomicLevelAt(zapcore.FatalLevel)
	if os.Getenv("VERIF_CORELOG") != "" {
		// debugging aid for replays: the core's own log at debug level (logging does not touch the schedule)
		dc := zap.NewDevelopmentConfig()
		dc.Level = zap.NewAtomicLevelAt(zapcore.DebugLevel)
		dc.EncoderConfig.TimeKey = ""
		dc.DisableStacktrace = true
		lg, err := dc.Build()
		if err != nil {
			fatal2("core log: " + err.Error())
		}
		log.InitializeLogger(lg, &dc)
		log.UpdateLoggingConfig(map[string]string{"log.level": "DEBUG"})
	} else {
		log.InitializeLogger(zap.New(zapcore.NewNopCore()), &zc)
	}
	debug.SetGCPercent(400)
	wallStart := time.Now()
	res := &Result{Cfg: cfg}
	// real-time watchdog, outside the bubble
	wdStop := make(chan struct{})
	var c *conductorT
	var cWatch atomic.Pointer[conductorT]
	go func() {
		last := uint64(0)
		idle := 0
		for {
			select {
			case <-wdStop:
				return
			case <-time.After(500 * time.Millisecond):
			}
			wc := cWatch.Load()
			if wc == nil {
				continue
			}
			cur := wc.progress.Load()
			if cur == last {
				idle++
			} else {
				idle = 0
				last = cur
			}
			if idle >= 120 {
				buf := make([]byte, 1<<20)
				n := runtime.Stack(buf, true)
				fmt.Fprintf(os.Stderr, "HARNESS: watchdog: no conductor decision for 60s real time\n%s\n", buf[:n])
				os.Exit(2)
			}
		}
	}()
	synctest.Test(t, func(t *testing.T) {
		c = newConductor(cfg.Seed)
		cd = c
		cWatch.Store(c)
		switch cfg.Policy {
		case "rnd":
			c.policy = polRND
			c.preemptP = cfg.PreemptP
		case "pct":
			c.policy = polPCT
			r := NewRng(cfg.Seed, "pct")
			c.pctN = cfg.PctDepth
			if c.pctN > len(c.pctPoints) {
				c.pctN = len(c.pctPoints)
			}
			for i := 0; i < c.pctN; i++ {
				c.pctPoints[i] = uint64(r.Range(1, 40000))
			}
		default:
			c.policy = polRTC
		}
		if cfg.MapSalt != 0 {
			c.mapSalt = cfg.MapSalt
		}
		c.permEnabled = !cfg.NoPerm
		simseam.LockHook = hookLock
		simseam.GoHook = hookGo
		simseam.AfterFuncHook = hookAfterFunc
		simseam.PermHook = hookPerm
		simseam.NameHook = nameKey
		s := &Sim{cfg: cfg, c: c, probes: map[string]int{}, faults: map[string]int{}, stateSet: map[uint64]bool{}, confirmDelay: map[string]int{}, graveyard: map[string]*QSpec{}, ghosts: map[string]*QSpec{}}
		s.shim = NewShim(c, cfg.Seed)
		s.shim.minimal = cfg.Race
		if cfg.Faults["predicate_flap"] {
			s.shim.PredFlapP = 0.12
		}
		if cfg.Faults["predicate_side_effect"] {
			s.shim.SideEffectP = 0.1
			s.shim.sideEffect = s.predicateSideEffect
		}
		if cfg.Faults["callback_error"] {
			s.shim.CBErrorP = 0.05
		}
		s.rng = NewRng(cfg.Seed, "ops")
		s.frng = NewRng(cfg.Seed, "faults")
		s.mrng = NewRng(cfg.Seed, "malformed")
		s.zrng = NewRng(cfg.Seed, "freeze")
		s.orng = NewRng(cfg.Seed, "oracle-sampling")
		s.rrng = NewRng(cfg.Seed, "rest")
		s.shim.onCallback = func() { s.freeze("callback") }
		pf, ok := profiles[cfg.Profile]
		if !ok {
			pf = profiles["base"]
		}
		s.pf = pf
		if cfg.Restore != nil {
			s.world = cfg.Restore.World
			s.world.Conf = cfg.Restore.Conf
		} else if cfg.World != nil {
			s.world = cfg.World
		} else {
			s.world = GenWorld(cfg.Seed, pf)
			for i := 0; i < 6; i++ {
				if err := s.world.Conf.Validate(); err == nil {
					break
				} else {
					s.notes = append(s.notes, fmt.Sprintf("generated configuration rejected (%v): degraded step %d", err, i))
					s.world.Conf.Degrade(i)
				}
			}
		}
		s.conf = s.world.Conf.Clone()
		s.simStart = time.Now()
		s.shim.start = s.simStart
		drv := c.spawn(func() { s.drive() }, true)
		c.loop(drv)
		// collect
		res.Violations = append(res.Violations, s.violations...)
		s.shim.mu.Lock()
		res.Violations = append(res.Violations, s.shim.violations...)
		for k, v := range s.shim.faults {
			s.faults[k] += v
		}
		res.SIEvents = s.shim.AllEvents
		res.Sample = s.shim.Sample
		s.shim.mu.Unlock()
		res.Deadlock = c.deadlock
		res.Stuck = c.stuck
		if c.deadlock != "" {
			res.Violations = append(res.Violations, Violation{Prop: "C14", Clause: "deadlock", Msg: c.deadlock, Step: s.step, Sig: "C14:deadlock:" + deadlockSig(c.deadlock)})
		}
		if c.stuck != "" && c.deadlock == "" {
			res.Violations = append(res.Violations, Violation{Prop: "C14", Clause: "stuck", Msg: c.stuck + " at step " + fmt.Sprint(s.step) + " op " + s.lastOp(), Step: s.step, Sig: "C14:stuck:" + s.lastOpKind()})
		}
		res.Steps = s.steps
		res.Quiescents = s.quiescents
		res.Decisions = c.decisions
		res.FastPasses = c.fastPasses
		res.Parks = c.parks
		res.Locks = c.nlocks
		res.MaxParked = c.maxParked
		res.SchedSig = fmt.Sprintf("%016x", c.sigHash)
		res.SimMs = time.Since(s.simStart).Milliseconds()
		s.probes["rest_reads"] += s.restReads
		if cfg.Policy != "rtc" && cfg.Policy != "" {
			s.probes["interleaved"]++
		}
		res.Faults = s.faults
		res.Probes = s.probes
		res.NStates = len(s.stateSet)
		for h := range s.stateSet {
			res.States = append(res.States, h)
		}
		sort.Slice(res.States, func(i, j int) bool { return res.States[i] < res.States[j] })
		if len(res.States) > 4096 {
			res.States = res.States[:4096]
		}
		res.Bound = s.everBound
		res.Ops = s.ops
		res.Notes = s.notes
		res.UnnamedKey = simseam.UnnamedKeys
		res.Goroutines = countGoroutines(c.root)
		res.ConfYAML = s.world.Conf.YAML()
		res.Frozen = frozenList(s.frozen)
		h := uint64(14695981039346656037)
		for _, o := range s.ops {
			b, _ := json.Marshal(o)
			h = hashStr(h, string(b))
		}
		res.OpsSig = fmt.Sprintf("%016x", h)
		_ = wallStart
		close(wdStop)
		writeResult(out, res)
		if simseam.UnnamedKeys > 0 {
			fmt.Fprintf(os.Stderr, "HARNESS: %d map keys without a stable name\n", simseam.UnnamedKeys)
			os.Exit(2)
		}
		os.Exit(0)
	})
}

func countGoroutines(g *grec) int {
	n := 1
	for _, c := range g.children {
		n += countGoroutines(c)
	}
	return n
}

func deadlockSig(d string) string {
	// the goroutine creation sites involved, without instance numbers
	var sites []string
	for _, part := range strings.Split(d, ";") {
		if i := strings.Index(part, "("); i >= 0 {
			if j := strings.Index(part[i:], ")"); j > 0 {
				sites = append(sites, part[i+1:i+j])
			}
		}
	}
	sort.Strings(sites)
	return strings.Join(sites, "+")
}

func (s *Sim) lastOp() string {
	if len(s.ops) == 0 {
		return "startup"
	}
	return s.ops[len(s.ops)-1].String()
}

func (s *Sim) lastOpKind() string {
	if len(s.ops) == 0 {
		return "startup"
	}
	return s.ops[len(s.ops)-1].Kind
}

func writeResult(out string, res *Result) {
	b, err := json.Marshal(res)
	if err != nil {
		fatal2("cannot encode result: " + err.Error())
	}
	if out == "" {
		os.Stdout.Write(b)
		os.Stdout.Write([]byte("\n"))
		return
	}
	if err := os.WriteFile(out, b, 0o644); err != nil {
		fatal2("cannot write result: " + err.Error())
	}
}

// nameKey gives stable names to pointer map keys (simseam.NameHook).
func nameKey(k any) string {
	switch v := k.(type) {
	case *objects.Queue:
		return "q:" + v.QueuePath
	case *objects.Application:
		return "a:" + v.ApplicationID
	case *events.EventStream:
		return streamName(v)
	}
	return ""
}

var streamNames = map[*events.EventStream]string{}

func streamName(e *events.EventStream) string {
	if n, ok := streamNames[e]; ok {
		return n
	}
	n := fmt.Sprintf("s:%06d", len(streamNames))
	streamNames[e] = n
	return n
}

// ---- the driver goroutine --------------------------------------------------------------------------

func (s *Sim) drive() {
	if s.cfg.Engine == "events" {
		s.driveEvents()
		return
	}
	if err := s.startCore(); err != nil {
		// the generated configuration passed validation but the core refused it
		s.violate("C15", "accepted-config-not-loadable", "register", "registration with a configuration that validation accepts failed: %v", err)
		return
	}
	if msg := s.conf.RuleCheck(); msg != "" {
		s.violate("C15", "accepted-config-breaks-rule", strings.SplitN(msg, ":", 2)[0], "the configuration the scheduler registered with breaks a hierarchy rule: %s", msg)
	}
	s.c.settle()
	s.checkACLState("at-start")
	s.post = TakeSnap(s.sc.Scheduler, s.part)
	if s.cfg.Restore != nil {
		s.recoverFrom(s.cfg.Restore)
	}
	if len(s.cfg.Ops) > 0 {
		for _, op := range s.cfg.Ops {
			s.playOp(op)
		}
	} else {
		if s.cfg.Restore == nil {
			s.setupPhase()
		}
		for s.steps < s.cfg.Steps+s.recoverySteps() {
			op, ok := s.genOp()
			if !ok {
				break
			}
			s.playOp(op)
			if op.Kind == "timed" {
				// let the clock reach the deadline (and a little more)
				q := int64(1000)
				if s.rng.Bool(0.5) {
					q = op.Ms + 5000
				}
				s.doStep(Op{Kind: "advance", Ms: op.Ms + int64(s.rng.Range(0, 3000)), Quantum: q})
			}
			s.handleObligations()
			// a small seeded pause between operations so that submission instants differ (and sometimes do not)
			if s.rng.Bool(0.5) {
				s.doStep(Op{Kind: "advance", Ms: int64(s.rng.Range(0, 1500)), Quantum: 1000})
			}
		}
	}
	s.drainPhase()
	s.finish()
}

// playOp expands composite operations and executes.
func (s *Sim) playOp(op Op) {
	switch op.Kind {
	case "complete":
		s.shim.mu.Lock()
		var rel []Op
		for _, m := range s.shim.appAllocs(op.AppID) {
			if m.Key == op.Key && op.Key != "" {
				continue // swap_race: everything but the real half of the replacement in flight
			}
			if m.Status == stBound || m.Status == stPending {
				rel = append(rel, Op{Kind: "release", Key: m.Key, AppID: m.App, Type: "STOPPED_BY_RM", Fault: op.Fault})
			}
		}
		s.shim.mu.Unlock()
		for _, r := range rel {
			s.doStep(r)
		}
	case "app_add":
		s.doStep(op)
		if op.App.GangStyle != "" && len(op.App.TaskGroups) > 0 && op.Fault != "req_dup" {
			s.shim.mu.Lock()
			accepted := s.shim.Apps[op.App.ID] != nil && s.shim.Apps[op.App.ID].Status == "accepted"
			s.shim.mu.Unlock()
			if accepted && len(s.cfg.Ops) == 0 {
				s.doStep(s.placeholderAsks(op.App))
			}
		}
	default:
		s.doStep(op)
	}
}

func (s *Sim) setupPhase() {
	for _, n := range s.world.Nodes {
		s.doStep(Op{Kind: "node_add", Node: n.ID, Cap: n.Cap.Clone()})
	}
	napps := s.rng.Range(1, 4)
	for i := 0; i < napps; i++ {
		s.playOp(s.genApp())
	}
	s.shim.mu.Lock()
	apps := s.shim.liveAppIDs()
	s.shim.mu.Unlock()
	for _, id := range apps {
		if s.rng.Bool(0.8) {
			s.shim.mu.Lock()
			op := s.genAsks(id)
			s.shim.mu.Unlock()
			s.doStep(op)
		}
	}
	if s.pf.Preemption && len(apps) > 0 && s.rng.Bool(0.8) {
		// preemption needs a full cluster: one application hogs it, then time passes
		hog := pick(s.rng, apps)
		total := Res{}
		for _, n := range s.world.Nodes {
			total.AddTo(n.Cap)
		}
		used := Res{}
		// (a maximum on the hog's queue path would stop it short: the other applications help filling up)
		for i := 0; i < 40 && used["vcore"] < total["vcore"] && used["memory"] < total["memory"]; i++ {
			s.nAsk++
			r := Res{"vcore": int64(s.rng.Range(1, 4)), "memory": int64(s.rng.Range(1, 4))}
			used.AddTo(r)
			who := hog
			if i%3 == 2 {
				who = apps[(i/3)%len(apps)]
			}
			a := AskArgs{Key: fmt.Sprintf("%s-k%d", who, s.nAsk), App: who, Res: r, PreemptSelf: true, Priority: int32(s.rng.Range(-1, 2))}
			s.doStep(Op{Kind: "ask", Asks: []AskArgs{a}})
		}
		for i := 0; i < 30; i++ {
			s.doStep(Op{Kind: "sched"})
			if len(s.shim.StepEvents) == 0 && i > 5 {
				break
			}
		}
		// directed: somebody with a guarantee of its own, in another queue, now wants in and may preempt
		if s.rng.Bool(0.75) {
			hogQ := s.appQueue(hog)
			var cands []string
			guarOf := map[string]Res{}
			for _, leaf := range s.conf.Leaves() {
				if leaf == hogQ {
					continue
				}
				// the tightest guarantee on the path, on the types pods are made of
				g := Res{}
				for _, qp := range ancestors(leaf) {
					if q := s.conf.Find(qp); q != nil {
						for _, t := range []string{"vcore", "memory"} {
							if v, ok := q.Guar[t]; ok && v > 0 && (g[t] == 0 || v < g[t]) {
								g[t] = v
							}
						}
					}
				}
				if len(g) > 0 {
					cands = append(cands, leaf)
					guarOf[leaf] = g
				}
			}
			if len(cands) > 0 && len(s.conf.Rules) == 0 {
				leaf := pick(s.rng, cands)
				s.nApp++
				u := pick(s.rng, s.world.Users)
				id := fmt.Sprintf("app-%d", s.nApp)
				s.doStep(Op{Kind: "app_add", App: &AppArgs{ID: id, Queue: leaf, User: u.Name, Groups: u.Groups, Tags: map[string]string{}}})
				n := s.rng.Range(1, 3)
				for i := 0; i < n; i++ {
					s.nAsk++
					// mostly inside what the queue is guaranteed (that is what entitles it to preempt)
					r := Res{}
					for _, t := range sortedKeys(guarOf[leaf]) {
						hi := int(guarOf[leaf][t])
						if hi > 4 {
							hi = 4
						}
						r[t] = int64(s.rng.Range(1, hi))
					}
					if s.rng.Bool(0.2) {
						r["vcore"] += int64(s.rng.Range(1, 3))
					}
					s.doStep(Op{Kind: "ask", Asks: []AskArgs{{Key: fmt.Sprintf("%s-k%d", id, s.nAsk), App: id, Res: r, PreemptSelf: true, PreemptOther: true, Priority: int32(s.rng.Range(0, 4))}}})
				}
				s.doStep(Op{Kind: "sched"})
				s.doStep(Op{Kind: "advance", Ms: int64(s.rng.Range(30500, 36000)), Quantum: 5000})
				for i := 0; i < 3; i++ {
					s.doStep(Op{Kind: "sched"})
				}
				s.probe("directed_preemptor")
			}
		}
	}
}

// drainPhase: faults stop, every owed confirmation is delivered, everything is released and removed,
// time passes; afterwards all books must be exactly zero.
func (s *Sim) drainPhase() {
	if s.pf.Preemption {
		// reach measure: why the asks that are still pending were not helped by preemption (allocation log of the core)
		if pc := s.sc.Scheduler.GetClusterContext().GetPartition(s.part); pc != nil {
			for _, app := range pc.GetApplications() {
				for _, ask := range app.GetAllRequests() {
					if ask.IsAllocated() || !ask.IsAllowPreemptOther() {
						continue
					}
					for _, e := range ask.GetAllocationLog() {
						s.probe("asklog:" + e.Message)
						if os.Getenv("VERIF_TRACE") != "" {
							fmt.Printf("    asklog %s %s in %s: %dx %s\n", ask.GetAllocationKey(), ask.GetAllocatedResource(), app.GetQueuePath(), e.Count, e.Message)
						}
					}
				}
			}
		}
	}
	s.cfg.Faults = map[string]bool{}
	s.shim.mu.Lock()
	s.shim.PredFlapP = 0
	s.shim.CBErrorP = 0
	s.shim.mu.Unlock()
	s.deliverAllOwed()
	for i := 0; i < 3; i++ {
		s.doStep(Op{Kind: "sched"})
		s.deliverAllOwed()
	}
	// release everything the shim still holds, then remove the applications
	s.shim.mu.Lock()
	var rel []Op
	for _, k := range s.shim.sortedAllocKeys() {
		m := s.shim.Allocs[k]
		if m.Status == stBound || m.Status == stPending {
			rel = append(rel, Op{Kind: "release", Key: m.Key, AppID: m.App, Type: "STOPPED_BY_RM"})
		}
	}
	for _, k := range sortedKeys(s.shim.Foreign) {
		if s.shim.Foreign[k].Status == stBound {
			rel = append(rel, Op{Kind: "release", Key: k, AppID: ""})
		}
	}
	s.shim.mu.Unlock()
	for _, r := range rel {
		s.doStep(r)
		s.deliverAllOwed()
	}
	s.deliverAllOwed()
	s.doStep(Op{Kind: "sched"})
	s.deliverAllOwed()
	s.shim.mu.Lock()
	var rm []Op
	for _, id := range sortedKeys(s.shim.Apps) {
		if a := s.shim.Apps[id]; a.Status == "accepted" {
			rm = append(rm, Op{Kind: "app_remove", AppID: id})
		}
	}
	s.shim.mu.Unlock()
	for _, r := range rm {
		s.doStep(r)
	}
	s.deliverAllOwed()
	s.doStep(Op{Kind: "advance", Ms: 120000, Quantum: 5000})
	s.doStep(Op{Kind: "tick", Type: "cleanup"})
	s.drained = true
	s.checkDrained()
}

func (s *Sim) checkDrained() {
	p := s.post
	if p == nil || p.PartitionGone {
		return
	}
	s.shim.mu.Lock()
	defer s.shim.mu.Unlock()
	for _, path := range sortedKeys(p.Queues) {
		q := p.Queues[path]
		if !q.Alloc.IsZero() || !q.Pending.IsZero() || !q.Preempting.IsZero() {
			s.violate("C03", "leak-queue", "", "after everything was released and removed queue %s still reports allocated %s pending %s preempting %s", path, q.Alloc, q.Pending, q.Preempting)
		}
		if q.Running != 0 || len(q.Allocating) != 0 {
			s.violate("C11", "leak-counters", "", "after everything was removed queue %s reports running=%d allocating=%v", path, q.Running, q.Allocating)
		}
		if len(q.Apps) != 0 {
			s.violate("C03", "leak-app-in-queue", "", "after everything was removed queue %s still lists applications %v", path, q.Apps)
		}
	}
	for _, nid := range sortedKeys(p.Nodes) {
		n := p.Nodes[nid]
		if !n.Alloc.IsZero() || len(n.Allocs) != 0 {
			detail := ""
			failed := 0
			for _, al := range n.Allocs {
				if d := p.Done[al.App]; d != nil && (d.State == "Failed" || d.State == "Failing") {
					failed++
				}
			}
			if failed > 0 && failed == len(n.Allocs) {
				detail = "orphans-of-failed-app"
			}
			owners := map[string]bool{}
			for _, al := range n.Allocs {
				owners[al.App] = true
			}
			s.violate("C03", "leak-node", detail, "after everything was released node %s still reports allocated %s (%d allocations of %v)", nid, n.Alloc, len(n.Allocs), sortedKeys(owners))
		}
		if !n.Occupied.IsZero() {
			s.violate("C03", "leak-node-occupied", "", "after every foreign allocation was removed node %s still reports occupied %s", nid, n.Occupied)
		}
		if len(n.Reserved) != 0 {
			detail := "node"
			for _, app := range n.Reserved {
				if d := p.Done[app]; d != nil && (d.State == "Failed" || d.State == "Failing") {
					detail = "node-app-Failed"
				}
			}
			s.violate("C09", "leak-reservation", detail, "after everything was removed node %s still carries reservations %v", nid, n.Reserved)
		}
	}
	if len(p.Apps) != 0 {
		s.violate("C03", "leak-app", "", "after every application was removed the partition still lists %v", sortedKeys(p.Apps))
	}
	if p.PartAllocs != 0 || p.PartPh != 0 || p.PartRes != 0 {
		s.probe("partition_counter_leak_after_drain")
	}
	s.probe("drained_clean")
	s.checkDrainedMore()
}

func (s *Sim) finish() {
	// the process exits right after the result is written: the services are not stopped (a stop after a violated
	// invariant can crash before the result is out)
}

func (s *Sim) recoverySteps() int {
	if s.cfg.Restore == nil {
		return 0
	}
	return s.recSteps
}
