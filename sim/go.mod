module verif/sim

go 1.25.0

require (
	github.com/apache/yunikorn-core v0.0.0
	github.com/apache/yunikorn-scheduler-interface v0.0.0-20260528033204-c474acff6d53
	github.com/petermattis/goid v0.0.0-20250813065127-a731cc31b4fe
	go.uber.org/zap v1.27.1
	go.yaml.in/yaml/v3 v3.0.4
)

require (
	github.com/Azure/go-ntlmssp v0.1.1 // indirect
	github.com/beorn7/perks v1.0.1 // indirect
	github.com/cespare/xxhash/v2 v2.3.0 // indirect
	github.com/go-asn1-ber/asn1-ber v1.5.8-0.20250403174932-29230038a667 // indirect
	github.com/go-ldap/ldap/v3 v3.4.13 // indirect
	github.com/google/btree v1.1.3 // indirect
	github.com/google/uuid v1.6.0 // indirect
	github.com/julienschmidt/httprouter v1.3.0 // indirect
	github.com/looplab/fsm v1.0.3 // indirect
	github.com/munnerz/goautoneg v0.0.0-20191010083416-a7dc8b61c822 // indirect
	github.com/prometheus/client_golang v1.23.2 // indirect
	github.com/prometheus/client_model v0.6.2 // indirect
	github.com/prometheus/common v0.67.5 // indirect
	github.com/prometheus/procfs v0.16.1 // indirect
	github.com/sasha-s/go-deadlock v0.3.9 // indirect
	go.uber.org/multierr v1.10.0 // indirect
	go.yaml.in/yaml/v2 v2.4.3 // indirect
	golang.org/x/crypto v0.51.0 // indirect
	golang.org/x/exp v0.0.0-20260312153236-7ab1446f8b90 // indirect
	golang.org/x/net v0.54.0 // indirect
	golang.org/x/sys v0.45.0 // indirect
	golang.org/x/text v0.37.0 // indirect
	golang.org/x/time v0.15.0 // indirect
	google.golang.org/genproto/googleapis/rpc v0.0.0-20251202230838-ff82c1b0f217 // indirect
	google.golang.org/grpc v1.79.3 // indirect
	google.golang.org/protobuf v1.36.11 // indirect
)

replace github.com/apache/yunikorn-core => /repo

replace (
	golang.org/x/crypto => golang.org/x/crypto v0.52.0
	golang.org/x/net => golang.org/x/net v0.55.0
	golang.org/x/sys => golang.org/x/sys v0.45.0
	golang.org/x/text => golang.org/x/text v0.37.0
)
