module verif/sim

go 1.25.0

require (
	github.com/apache/yunikorn-core v0.0.0
	github.com/apache/yunikorn-scheduler-interface v0.0.0-20260528033204-c474acff6d53
	github.com/petermattis/goid v0.0.0-20250813065127-a731cc31b4fe
)

replace github.com/apache/yunikorn-core => /repo

replace (
	golang.org/x/crypto => golang.org/x/crypto v0.52.0
	golang.org/x/net => golang.org/x/net v0.55.0
	golang.org/x/sys => golang.org/x/sys v0.45.0
	golang.org/x/text => golang.org/x/text v0.37.0
)
