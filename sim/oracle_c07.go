package sim

import (
	"fmt"
	"strings"
	"time"
)

// ---- C07 / C08: preemption ---------------------------------------------------------------------------------

const (
	msgQueuePreempt = "preempting allocations to free up resources to run ask: "
	msgReqNode      = "preempting allocations to free up resources to run daemon set ask: "
	msgQuota        = "preempting allocations to enforce new max quota for queue : "
)

// policyFenceRoot: the nearest queue at or above path whose preemption policy is fence, else root.
func (s *Sim) policyFenceRoot(snap *Snap, path string) string {
	anc := ancestors(path)
	for i := len(anc) - 1; i >= 0; i-- {
		if q := snap.Queues[anc[i]]; q != nil && q.DAO != nil && q.DAO.IsPreemptionFence {
			return anc[i]
		}
	}
	return "root"
}

func under(path, root string) bool { return path == root || strings.HasPrefix(path, root+".") }

// plainPriorities: no priority offsets or priority fences anywhere on the path.
func plainPriorities(snap *Snap, path string) bool {
	for _, qp := range ancestors(path) {
		q := snap.Queues[qp]
		if q == nil || q.DAO == nil {
			return false
		}
		if q.DAO.IsPriorityFence || q.DAO.PriorityOffset != 0 {
			return false
		}
	}
	return true
}

func (s *Sim) oracleC07(op Op, evs []SIEvent) {
	if s.pre == nil {
		return
	}
	pre := s.pre
	now := time.Since(s.simStart).Milliseconds()
	type group struct {
		kind    string
		asker   string
		queue   string
		victims []*MAlloc
	}
	groups := map[string]*group{}
	var order []string
	for _, e := range evs {
		if e.Kind != "released" || e.Type != "PREEMPTED_BY_SCHEDULER" {
			continue
		}
		v := s.shim.Allocs[e.Key]
		if v == nil {
			continue
		}
		s.probe("preemption_victim_checked")
		kind, ref := "", ""
		switch {
		case strings.HasPrefix(e.Msg, msgQueuePreempt):
			kind, ref = "queue", strings.TrimPrefix(e.Msg, msgQueuePreempt)
		case strings.HasPrefix(e.Msg, msgReqNode):
			kind, ref = "required-node", strings.TrimPrefix(e.Msg, msgReqNode)
		case strings.HasPrefix(e.Msg, msgQuota):
			kind, ref = "quota", strings.TrimPrefix(e.Msg, msgQuota)
		default:
			s.violate("C07", "unknown-preemption-kind", "", "victim %s announced with message %q", e.Key, e.Msg)
			continue
		}
		s.probe("preemption_" + kind)
		gk := kind + "|" + ref
		g := groups[gk]
		if g == nil {
			g = &group{kind: kind}
			if kind == "quota" {
				g.queue = ref
			} else {
				g.asker = ref
			}
			groups[gk] = g
			order = append(order, gk)
		}
		g.victims = append(g.victims, v)
		// common clauses, against the world before the step
		pa := pre.Apps[v.App]
		var cv *AllocSnap
		if pa != nil {
			cv = pa.Allocs[v.Key]
		}
		if cv == nil {
			s.violate("C07", "victim-not-bound", kind, "%s preemption announced victim %s which was not a bound allocation before the step", kind, v.Key)
			continue
		}
		if cv.Released {
			s.violate("C07", "victim-already-released", kind, "%s preemption took victim %s which was already released (being replaced or timed out)", kind, v.Key)
		}
		if cv.Preempted {
			s.violate("C07", "victim-already-preempted", kind, "%s preemption took victim %s which was already marked for preemption", kind, v.Key)
		}
		if v.RequiredNode != "" {
			s.violate("C07", "victim-requires-node", kind, "%s preemption took victim %s which requires node %s", kind, v.Key, v.RequiredNode)
		}
		if v.Announced > 1 {
			s.violate("C07", "victim-announced-again", kind, "victim %s was announced %d times", v.Key, v.Announced)
		}
		if v.PreemptAnnounced {
			s.violate("C07", "victim-announced-again", kind, "victim %s was announced as preempted before", v.Key)
		}
		v.PreemptAnnounced = true
	}
	for _, gk := range order {
		g := groups[gk]
		switch g.kind {
		case "queue":
			s.checkQueuePreemption(g.asker, g.victims, now)
		case "required-node":
			ask := s.shim.Allocs[g.asker]
			if ask == nil {
				s.violate("C07", "asker-unknown", "required-node", "required-node preemption for ask %s which the shim never submitted", g.asker)
				continue
			}
			if ask.RequiredNode == "" {
				s.violate("C07", "asker-without-required-node", "", "required-node preemption for ask %s which names no node", g.asker)
			}
			for _, v := range g.victims {
				if v.Node != ask.RequiredNode {
					s.violate("C07", "victim-on-other-node", "required-node", "required-node preemption for %s (node %s) took victim %s on node %s", g.asker, ask.RequiredNode, v.Key, v.Node)
				}
				if v.Priority > ask.Priority {
					s.violate("C07", "victim-outranks-ask", "required-node", "required-node preemption for %s (priority %d) took victim %s with priority %d", g.asker, ask.Priority, v.Key, v.Priority)
				}
			}
		case "quota":
			s.checkQuotaPreemption(g.queue, g.victims, now)
		}
	}
}

func (s *Sim) checkQueuePreemption(askKey string, victims []*MAlloc, now int64) {
	pre := s.pre
	ask := s.shim.Allocs[askKey]
	if ask == nil {
		s.violate("C07", "asker-unknown", "queue", "queue preemption for ask %s which the shim never submitted", askKey)
		return
	}
	askLeaf := s.appQueue(ask.App)
	if !ask.PreemptOther {
		s.violate("C07", "asker-may-not-preempt", "", "queue preemption for ask %s which does not allow preempting others", askKey)
	}
	if ask.RequiredNode != "" {
		s.violate("C07", "asker-requires-node", "", "queue preemption for ask %s which requires node %s", askKey, ask.RequiredNode)
	}
	if ask.TriggeredPreemption {
		s.violate("C07", "asker-triggered-twice", "", "ask %s triggered queue preemption a second time", askKey)
	}
	ask.TriggeredPreemption = true
	if q := pre.Queues[askLeaf]; q != nil && q.DAO != nil {
		if d, err := time.ParseDuration(q.DAO.PreemptionDelay); err == nil {
			if waited := now - ask.SubmitMs; waited < d.Milliseconds() {
				s.violate("C07", "asker-too-young", "", "ask %s triggered queue preemption after %d ms, its queue %s has a preemption delay of %s", askKey, waited, askLeaf, q.DAO.PreemptionDelay)
			}
		}
	}
	fence := s.policyFenceRoot(pre, askLeaf)
	// C08: the asker's queue path has a guarantee it is still under
	underGuar := false
	hasGuar := false
	for _, qp := range ancestors(askLeaf) {
		q := pre.Queues[qp]
		if q == nil || len(q.Guar) == 0 {
			continue
		}
		hasGuar = true
		// the statement asks for a guarantee the path is still under; it does not tie it to the types of the ask
		// (the core treats a type the guarantee does not mention as not holding the ask back)
		needed := false
		// what the queue uses, not counting what this very preemption takes away below it (victims in a sibling
		// under the same guaranteed parent: the parent is under its guarantee once they are gone)
		net := q.Alloc.Sub(q.Preempting)
		for _, v := range victims {
			if vq := s.appQueue(v.App); vq == qp || strings.HasPrefix(vq, qp+".") {
				net = net.Sub(v.Res)
			}
		}
		for t, g := range q.Guar {
			if net[t] < g {
				underGuar = true
				if ask.Res[t] > 0 {
					needed = true
				}
			}
		}
		if !needed {
			s.probe("asker_under_guarantee_on_other_type_only")
		}
	}
	if !hasGuar {
		s.violate("C08", "asker-without-guarantee", "", "queue preemption for ask %s in %s: no queue on its path has guaranteed resources", askKey, askLeaf)
	} else if !underGuar {
		detail := ""
		for _, qp := range ancestors(askLeaf) {
			if q := pre.Queues[qp]; q != nil && len(q.Guar) > 0 {
				detail += fmt.Sprintf(" %s guaranteed %s uses %s (preempting %s)", qp, q.Guar, q.Alloc, q.Preempting)
			}
		}
		for _, v := range victims {
			detail += fmt.Sprintf(" victim %s %s in %s", v.Key, v.Res, s.appQueue(v.App))
		}
		// known finding: the guarantee check of the core is made over the potential victims of all queues; the
		// victims it then takes (for room on the node) may hold none of the guaranteed types
		kind := ""
		holds := false
		for _, qp := range ancestors(askLeaf) {
			if q := pre.Queues[qp]; q != nil {
				for t := range q.Guar {
					for _, v := range victims {
						if v.Res[t] > 0 {
							holds = true
						}
					}
				}
			}
		}
		if !holds {
			kind = "victims-hold-no-guaranteed-type"
		}
		s.violate("C08", "asker-not-under-guarantee", kind, "queue preemption for ask %s %s in %s: every guarantee on its path is already met:%s", askKey, ask.Res, askLeaf, detail)
	}
	// replay the victims in order on a copy of the pre-step usage (net of what is already being preempted)
	usage := map[string]Res{}
	for path, q := range pre.Queues {
		usage[path] = q.Alloc.Sub(q.Preempting)
	}
	node := ""
	if a := s.post.Apps[ask.App]; a != nil {
		node = a.Reservations[askKey]
	}
	onNode := Res{}
	for _, v := range victims {
		vLeaf := s.appQueue(v.App)
		if vLeaf == askLeaf {
			s.violate("C07", "victim-in-asker-queue", "", "queue preemption for %s in %s took victim %s from the same leaf queue", askKey, askLeaf, v.Key)
		}
		if !under(vLeaf, fence) {
			s.violate("C07", "victim-outside-fence", "", "queue preemption for %s in %s (fence %s) took victim %s from %s", askKey, askLeaf, fence, v.Key, vLeaf)
		}
		if q := pre.Queues[vLeaf]; q != nil && q.DAO != nil && !q.DAO.PreemptionEnabled {
			s.violate("C07", "victim-queue-preemption-disabled", "", "queue preemption took victim %s from %s whose preemption policy is disabled", v.Key, vLeaf)
		}
		share := false
		for t, x := range ask.Res {
			if x > 0 && v.Res[t] > 0 {
				share = true
			}
		}
		if !share {
			s.violate("C07", "victim-shares-no-type", "", "queue preemption for %s %s took victim %s %s: no resource type in common", askKey, ask.Res, v.Key, v.Res)
		}
		if plainPriorities(pre, vLeaf) && plainPriorities(pre, askLeaf) && v.Priority > ask.Priority {
			s.violate("C07", "victim-outranks-ask", "queue", "queue preemption for %s (priority %d) took victim %s with priority %d, no offsets or priority fences involved", askKey, ask.Priority, v.Key, v.Priority)
		}
		// C08: the victim's queue is above its guaranteed share on a type the ask needs, at this moment
		strict := false
		above := false
		anyGuar := false
		for _, qp := range ancestors(vLeaf) {
			q := pre.Queues[qp]
			if q == nil || len(q.Guar) == 0 {
				continue
			}
			if under(askLeaf, qp) {
				// a queue the asker lives under as well: its guarantee is the asker's as much as the victim's, taking
				// from one child for another does not touch it
				continue
			}
			anyGuar = true
			if qp == vLeaf {
				strict = true
			}
			for t, g := range q.Guar {
				if ask.Res[t] > 0 && usage[qp][t] > g {
					above = true
				}
			}
			// a type the ask needs that the guarantee does not mention is not guaranteed at all
			for t, x := range ask.Res {
				if _, ok := q.Guar[t]; !ok && x > 0 && usage[qp][t] > 0 {
					above = true
				}
			}
		}
		if anyGuar && !above {
			form := "necessary"
			if strict {
				form = "strict"
			}
			s.violate("C08", "victim-queue-not-above-guarantee", form, "queue preemption for %s %s took victim %s %s from %s which is at or below its guaranteed share on every type the ask needs (usage net of preempting %s)", askKey, ask.Res, v.Key, v.Res, vLeaf, usage[vLeaf])
		}
		for _, qp := range ancestors(vLeaf) {
			usage[qp] = usage[qp].Sub(v.Res)
		}
		if v.Node == node {
			onNode.AddTo(v.Res)
		}
	}
	// committed only if the victims on the chosen node plus its free space cover the ask
	if node == "" {
		s.probe("preemption_without_reservation")
	} else if pn := pre.Nodes[node]; pn != nil {
		if !ask.Res.FitsIn(pn.Avail.Add(onNode)) {
			s.violate("C08", "victims-do-not-cover-ask", "", "queue preemption for %s %s reserved node %s: free %s plus victims there %s do not cover the ask", askKey, ask.Res, node, pn.Avail, onNode)
		}
	}
}

func (s *Sim) checkQuotaPreemption(queue string, victims []*MAlloc, now int64) {
	pre := s.pre
	s.probe("quota_preemption_fired")
	q := pre.Queues[queue]
	if q == nil {
		s.violate("C08", "quota-unknown-queue", "", "quota preemption for queue %s which does not exist", queue)
		return
	}
	if !q.Managed {
		s.violate("C08", "quota-unmanaged-queue", "", "quota preemption ran for the dynamic queue %s", queue)
	}
	if s.conf.QuotaPreemption == nil || !*s.conf.QuotaPreemption {
		s.violate("C08", "quota-feature-disabled", "", "quota preemption ran for %s although the partition does not enable it", queue)
	}
	// the maximum that is exceeded is the queue's own or that of an ancestor (the excess of a parent is distributed
	// over its leaves): per type, the largest excess on the path
	excess := Res{}
	anyMax := false
	for _, qp := range ancestors(queue) {
		aq := pre.Queues[qp]
		if aq == nil || !aq.HasMax {
			continue
		}
		anyMax = true
		for t, m := range aq.Max {
			if d := aq.Alloc[t] - aq.Preempting[t] - m; d > excess[t] {
				excess[t] = d
			}
		}
	}
	if !anyMax {
		s.violate("C08", "quota-without-max", "", "quota preemption ran for %s: neither it nor an ancestor has a maximum", queue)
		return
	}
	if len(excess) == 0 {
		s.violate("C08", "quota-no-excess", "", "quota preemption took victims from %s: neither its usage %s (preempting %s, maximum %s) nor that of an ancestor exceeds a maximum", queue, q.Alloc, q.Preempting, q.Max)
		return
	}
	total := Res{}
	for _, v := range victims {
		vLeaf := s.appQueue(v.App)
		if !under(vLeaf, queue) {
			s.violate("C08", "quota-victim-outside-queue", "", "quota preemption for %s took victim %s from %s", queue, v.Key, vLeaf)
		}
		total.AddTo(v.Res)
	}
	// the last victim was needed: without it the excess was not yet cleared
	if n := len(victims); n > 1 {
		without := total.Sub(victims[n-1].Res)
		cleared := true
		for t, x := range excess {
			if without[t] < x {
				cleared = false
			}
		}
		if cleared {
			s.violate("C08", "quota-claimed-too-much", "", "quota preemption for %s (excess %s) took %d victims %s although the first %d already cover the excess", queue, excess, n, total, n-1)
		}
	}
	// never touches a queue at or below its guaranteed share: when a victim is taken, every queue from its leaf up
	// to the queue the quota belongs to that has a guarantee is still above it on some guaranteed type (net of what
	// is already being preempted and of the victims taken before it in this round)
	cur := map[string]Res{}
	for path, pq := range pre.Queues {
		cur[path] = pq.Alloc.Sub(pq.Preempting)
	}
	for _, v := range victims {
		vLeaf := s.appQueue(v.App)
		for _, qp := range ancestors(vLeaf) {
			pq := pre.Queues[qp]
			if pq == nil || !under(qp, queue) || len(pq.Guar) == 0 {
				continue
			}
			// at or below its share: nothing it uses exceeds what is guaranteed (a type without guarantee has none)
			if cur[qp].FitsIn(pq.Guar) {
				// where the excess is that of an ancestor, what each leaf has to give is computed by
				// getChildQueuesPreemptableResource (known finding: the share ignores the leaf's own guarantee)
				detail := ""
				if own := pre.Queues[queue]; own != nil {
					ownExcess := false
					for t, m := range own.Max {
						if own.HasMax && own.Alloc[t]-own.Preempting[t] > m {
							ownExcess = true
						}
					}
					if !ownExcess {
						detail = "from-parent-excess"
					}
				}
				s.violate("C08", "quota-at-guarantee", detail, "quota preemption for %s took victim %s %s from %s whose usage %s is at or below its guaranteed share %s", queue, v.Key, v.Res, qp, cur[qp], pq.Guar)
			}
		}
		for _, qp := range ancestors(vLeaf) {
			if c, ok := cur[qp]; ok {
				cur[qp] = c.Sub(v.Res)
			}
		}
	}
}
