package sim

import (
	"fmt"
	"net/http"
	"os"
	"regexp"
	"sort"
	"strings"
	"time"

	"github.com/apache/yunikorn-core/pkg/entrypoint"
	"github.com/apache/yunikorn-core/pkg/events"
	"github.com/apache/yunikorn-core/pkg/scheduler/objects"
	"github.com/apache/yunikorn-scheduler-interface/lib/go/si"
)

// RunCfg is what one simulated run is a pure function of (together with the code).
type RunCfg struct {
	Seed      uint64            `json:"seed"`
	Profile   string            `json:"profile"`
	Prop      string            `json:"prop"`             // the property this run is judged for
	Steps     int               `json:"steps"`            // driver operations to generate
	Policy    string            `json:"policy"`           // rtc, rnd, pct
	PreemptP  float64           `json:"preempt_p"`        // rnd
	PctDepth  int               `json:"pct_depth"`        // pct
	Faults    map[string]bool   `json:"faults,omitempty"` // enabled fault kinds
	FaultRate float64           `json:"fault_rate"`
	Ops       []Op              `json:"ops,omitempty"` // replay: execute exactly these instead of generating
	World     *WorldSpec        `json:"world,omitempty"`
	NoPerm    bool              `json:"noperm,omitempty"` // canonical map order (minimisation step)
	MapSalt   uint64            `json:"mapsalt,omitempty"`
	Auto      bool              `json:"auto,omitempty"` // real scheduling / quota / inspect loops instead of manual cycles
	Extra     map[string]string `json:"extra,omitempty"`
	Race      bool              `json:"race,omitempty"`
	Engine    string            `json:"engine,omitempty"`     // "" = scheduler (engine S), "events" = pkg/events only (engine E)
	Freeze    bool              `json:"freeze,omitempty"`     // record crash points (frozen shim knowledge) for C12
	Restore   *FrozenState      `json:"restore,omitempty"`    // start as the core after a crash: replay this shim knowledge first
	ExpectSig string            `json:"expect_sig,omitempty"` // replay: the violation this file reproduces
	SchedSig  string            `json:"sched_sig,omitempty"`  // replay: schedule signature the recorded run had
}

type Sim struct {
	cfg   RunCfg
	c     *conductorT
	shim  *Shim
	world *WorldSpec
	conf  *ConfSpec // M_conf: the latest accepted configuration
	pf    Profile
	rng   *Rng
	frng  *Rng

	sc    *entrypoint.ServiceContext
	cb    *shimCB
	part  string
	step  int
	ops   []Op // executed
	pre   *Snap
	post  *Snap
	nApp  int
	nAsk  int
	nNode int

	violations    []Violation
	probes        map[string]int
	faults        map[string]int
	simStart      time.Time
	drained       bool
	stateSet      map[uint64]bool
	notes         []string
	sortChecks    int
	restarts      int
	confirmDelay  map[string]int
	lateConfirms  []Op
	everBound     int
	steps         int
	quiescents    int
	reloadsOK     int
	reloadsRej    int
	cache         *stepCache
	graveyard     map[string]*QSpec
	ghosts        map[string]*QSpec // last configured form of queues that left the configuration but still exist (draining)
	gang          map[string]*gangWatch
	groupLeak     map[string]Res
	mrng          *Rng
	sideOps       []Op
	frozen        [][]byte
	freezeSeen    int
	zrng          *Rng
	recovering    bool
	recSteps      int
	orng          *Rng
	rrng          *Rng
	router        http.Handler
	restReads     int
	restErrors    int
	lastMalformed malformedCase
	lastReload    reloadResult
}

func (s *Sim) probe(name string) { s.probes[name]++ }

func (s *Sim) violate(prop, clause, sig, format string, args ...any) {
	v := Violation{Prop: prop, Clause: clause, Msg: fmt.Sprintf(format, args...), Step: s.step, Sig: prop + ":" + clause + ":" + sig}
	if t := s.taintOf(v.Msg); t != "" {
		v.Sig += "@" + t
	}
	s.violations = append(s.violations, v)
}

var (
	reAppID = regexp.MustCompile(`app-\d+`)
	reNode  = regexp.MustCompile(`node ([A-Za-z0-9]+)`)
	reQueue = regexp.MustCompile(`queue (root[A-Za-z0-9_.@-]*)`)
	reUser  = regexp.MustCompile(`user ([a-z]+)`)
	reGroup = regexp.MustCompile(`group ([a-z*]+)`)
)

// taintOf: does the violation concern an application whose history contains one of the known
// in-flight placeholder swap triggers (see known_findings.json)? The subject applications are taken
// from the message: application ids, the applications with allocations on a named node, the
// applications below a named queue, all of them for the root totals.
func (s *Sim) taintOf(msg string) string {
	t := s.shim.Tainted
	if len(t) == 0 {
		return ""
	}
	apps := map[string]bool{}
	for _, a := range reAppID.FindAllString(msg, -1) {
		apps[a] = true
	}
	for _, m := range reNode.FindAllStringSubmatch(msg, -1) {
		if t["node:"+m[1]] != "" {
			apps["node:"+m[1]] = true
		}
		for _, al := range s.shim.Allocs {
			if al.Node == m[1] {
				apps[al.App] = true
			}
		}
	}
	for _, m := range reQueue.FindAllStringSubmatch(msg, -1) {
		if m[1] == "root" {
			// everything is below root, also applications that are gone by now
			for id := range t {
				apps[id] = true
			}
		}
		// applications the core no longer has: where the shim knows they ran
		for id := range t {
			if a := s.shim.Apps[id]; a != nil {
				q := s.appQueue(id)
				if q == "" {
					q = a.Queue
				}
				if q == m[1] || strings.HasPrefix(q, m[1]+".") {
					apps[id] = true
				}
			}
		}
		for _, snap := range []*Snap{s.pre, s.post} {
			if snap == nil {
				continue
			}
			for id, a := range snap.Apps {
				if a.Queue == m[1] || strings.HasPrefix(a.Queue, m[1]+".") {
					apps[id] = true
				}
			}
			for id, a := range snap.Done {
				if a.Queue == m[1] || strings.HasPrefix(a.Queue, m[1]+".") {
					apps[id] = true
				}
			}
		}
	}
	for _, m := range reUser.FindAllStringSubmatch(msg, -1) {
		for id, a := range s.shim.Apps {
			if a.User == m[1] {
				apps[id] = true
			}
		}
	}
	for _, m := range reGroup.FindAllStringSubmatch(msg, -1) {
		for id, a := range s.shim.Apps {
			if m[1] == "*" || contains(a.Groups, m[1]) {
				apps[id] = true
			}
		}
	}
	if strings.Contains(msg, "root allocated") {
		for id := range t {
			apps[id] = true
		}
	}
	kinds := map[string]bool{}
	for a := range apps {
		if k, ok := t[a]; ok {
			kinds[k] = true
		}
	}
	if len(kinds) == 0 {
		return ""
	}
	return strings.Join(sortedKeys(kinds), "+")
}

func (s *Sim) faultOn(kind string) bool { return s.cfg.Faults[kind] }

func (s *Sim) proxy() *entrypoint.ServiceContext { return s.sc }

// startCore starts all services and registers the shim. Runs on the driver goroutine.
func (s *Sim) startCore() error {
	events.Init()
	if s.cfg.Auto {
		s.sc = entrypoint.StartAllServicesWithParams(false, false)
	} else {
		s.sc = entrypoint.StartAllServicesWithManualScheduler()
	}
	objects.SetReservationDelay(time.Duration(s.world.Knobs.ReservationDelayMs) * time.Millisecond)
	objects.SetCompletingTimeout(time.Duration(s.world.Knobs.CompletingMs) * time.Millisecond)
	s.shim.epoch++
	s.cb = &shimCB{s: s.shim, epoch: s.shim.epoch}
	_, err := s.sc.RMProxy.RegisterResourceManager(&si.RegisterResourceManagerRequest{RmID: s.shim.rmID, PolicyGroup: "sim", Version: "1",
		Config: s.conf.YAML(), ExtraConfig: s.extraConfig()}, s.cb)
	s.part = "[" + s.shim.rmID + "]default"
	return err
}

func (s *Sim) extraConfig() map[string]string {
	if os.Getenv("VERIF_CORELOG") != "" {
		return map[string]string{"log.level": "DEBUG"}
	}
	return map[string]string{"log.level": "FATAL"}
}

// ---- executing operations -------------------------------------------------------------------------

func (s *Sim) sendNodes(infos ...*si.NodeInfo) {
	_ = s.sc.RMProxy.UpdateNode(&si.NodeRequest{RmID: s.shim.rmID, Nodes: infos})
}

func (s *Sim) nodeInfo(id string, action si.NodeInfo_ActionFromRM, cap Res) *si.NodeInfo {
	ni := &si.NodeInfo{NodeID: id, Action: action, Attributes: map[string]string{"si/node-partition": "default"}}
	if cap != nil {
		ni.SchedulableResource = cap.ToSI()
	}
	return ni
}

// exec performs one operation: updates the shim's knowledge and sends the request. It does not wait.
func (s *Sim) exec(op Op) {
	sh := s.shim
	sh.mu.Lock()
	defer sh.mu.Unlock()
	switch op.Kind {
	case "node_add":
		n := sh.Nodes[op.Node]
		if n == nil || n.Status == "removed" || n.Status == "rejected" {
			sh.Nodes[op.Node] = &MNode{ID: op.Node, Cap: op.Cap.Clone(), Schedulable: !op.Drain, Status: "submitted"}
		} else {
			s.faults["req_dup"]++
		}
		act := si.NodeInfo_CREATE
		if op.Drain {
			act = si.NodeInfo_CREATE_DRAIN
		}
		sh.mu.Unlock()
		s.sendNodes(s.nodeInfo(op.Node, act, op.Cap))
		sh.mu.Lock()
	case "node_update":
		if n := sh.Nodes[op.Node]; n != nil && n.Status == "accepted" {
			n.CapHist = append(n.CapHist, n.Cap)
			n.Cap = op.Cap.Clone()
		}
		sh.mu.Unlock()
		s.sendNodes(s.nodeInfo(op.Node, si.NodeInfo_UPDATE, op.Cap))
		sh.mu.Lock()
	case "node_drain", "node_undrain":
		act := si.NodeInfo_DRAIN_NODE
		if op.Kind == "node_undrain" {
			act = si.NodeInfo_DRAIN_TO_SCHEDULABLE
		}
		if n := sh.Nodes[op.Node]; n != nil && n.Status == "accepted" {
			n.SchedHist = append(n.SchedHist, n.Schedulable)
			n.Schedulable = op.Kind == "node_undrain"
		}
		sh.mu.Unlock()
		s.sendNodes(s.nodeInfo(op.Node, act, nil))
		sh.mu.Lock()
	case "node_remove":
		if n := sh.Nodes[op.Node]; n != nil && n.Status == "accepted" {
			n.Status = "removed"
			n.RemoveSent = true
			infl.nodeRm[op.Node] = true
			for _, f := range sh.Foreign {
				if f.Node == op.Node {
					f.Status = stGone
				}
			}
		}
		sh.mu.Unlock()
		s.sendNodes(s.nodeInfo(op.Node, si.NodeInfo_DECOMISSION, nil))
		sh.mu.Lock()
	case "app_add":
		a := op.App
		if ex := sh.Apps[a.ID]; ex == nil || ex.Status == "removed" || ex.Status == "rejected" {
			m := &MApp{ID: a.ID, Queue: a.Queue, User: a.User, Groups: a.Groups, Tags: a.Tags, Status: "submitted", SubmitStep: s.step,
				Gang: a.GangStyle != "", GangStyle: a.GangStyle, TimeoutMs: a.TimeoutMs, TaskGroups: map[string]int{}, UgiNil: a.NilUgi, SubmitAtMs: sh.nowMs()}
			for _, tg := range a.TaskGroups {
				m.TaskGroups[tg.Name] = tg.Count
				for i := 0; i < tg.Count; i++ {
					m.PhAsk = m.PhAsk.Add(tg.Res)
				}
			}
			if a.PhAsk != nil {
				m.PhAsk = a.PhAsk.Clone()
			}
			m.Forced = a.Tags["application.create.force"] == "true"
			sh.Apps[a.ID] = m
		} else {
			s.faults["req_dup"]++
			if ex.Tags == nil {
				ex.Tags = map[string]string{}
			}
			ex.Tags["sim/dup"] = "1"
		}
		sh.mu.Unlock()
		_ = s.sc.RMProxy.UpdateApplication(&si.ApplicationRequest{RmID: sh.rmID, New: []*si.AddApplicationRequest{a.toSI()}})
		sh.mu.Lock()
	case "app_remove":
		if a := sh.Apps[op.AppID]; a != nil && (a.Status == "accepted" || a.Status == "submitted") {
			a.Status = "removed"
			a.RemoveSent = true
			infl.appRm[op.AppID] = true
			for _, m := range sh.Allocs {
				if m.App == op.AppID && m.Status == stPending {
					m.Status = stGone
					m.ReleaseSent = true
					m.RejectReason = "application removed by the shim"
					infl.releases[m.Key] = true
				}
			}
		}
		sh.mu.Unlock()
		_ = s.sc.RMProxy.UpdateApplication(&si.ApplicationRequest{RmID: sh.rmID, Remove: []*si.RemoveApplicationRequest{{ApplicationID: op.AppID, PartitionName: "default"}}})
		sh.mu.Lock()
	case "ask":
		req := &si.AllocationRequest{RmID: sh.rmID}
		for i := range op.Asks {
			a := &op.Asks[i]
			if a.Foreign != "" {
				if ex := sh.Foreign[a.Key]; ex == nil || ex.Status == stGone {
					sh.Foreign[a.Key] = &MAlloc{Key: a.Key, Res: a.Res.Clone(), Node: a.Node, Foreign: true, Status: stBound}
				} else {
					ex.Res = a.Res.Clone()
				}
			} else if ex := sh.Allocs[a.Key]; ex == nil || ex.Status == stGone {
				m := &MAlloc{Key: a.Key, App: a.App, Res: a.Res.Clone(), Priority: a.Priority, Placeholder: a.Placeholder, TaskGroup: a.TaskGroup,
					RequiredNode: a.RequiredNode, PreemptSelf: a.PreemptSelf, PreemptOther: a.PreemptOther, Originator: a.Originator,
					Status: stPending, SubmitStep: s.step, SubmitMs: sh.nowMs()}
				if a.Node != "" {
					m.Status = stBound
					m.Node = a.Node
					m.RMPlaced = true
				}
				sh.Allocs[a.Key] = m
			} else {
				// same key again: a retry, or an in-place update
				if s.post != nil && ex.Status == stPending {
					if ap := s.post.Apps[ex.App]; ap != nil {
						if ask := ap.Asks[ex.Key]; ask != nil && ask.ReleaseKey != "" {
							sh.taint(ex.App, "update-during-swap")
							s.probe("ask_updated_during_swap")
						}
					}
				}
				if !ex.Res.Eq(a.Res) && op.Fault != "req_dup" {
					ex.Res = a.Res.Clone()
				} else {
					s.faults["req_dup"]++
				}
			}
			req.Allocations = append(req.Allocations, a.toSI())
		}
		sh.mu.Unlock()
		_ = s.sc.RMProxy.UpdateAllocation(req)
		sh.mu.Lock()
	case "release":
		if op.AppID == "" {
			if f := sh.Foreign[op.Key]; f != nil {
				f.Status = stGone
			}
		} else if m := sh.Allocs[op.Key]; m != nil && m.Status != stGone {
			if s.post != nil {
				if a := s.post.Apps[m.App]; a != nil {
					if ask := a.Asks[m.Key]; ask != nil && ask.ReleaseKey != "" && !ask.Placeholder && m.Status == stPending {
						m.ReleasedDuringSwap = true
						sh.taint(m.App, "ask-released-during-swap")
						s.probe("ask_released_during_swap")
					}
				}
			}
			m.WasBound = m.live()
			m.ReleaseSent = true
			m.Status = stGone
			m.RejectReason = "released by the shim"
			if op.Fault != "release_any_type" {
				infl.releases[op.Key] = true
			} else {
				// TIMEOUT / PREEMPTED_BY_SCHEDULER from the shim are the last word on an allocation: the core does not
				// answer them, so an announcement for this key from here on names something the shim no longer has
				m.RejectReason = "released by the shim with a confirmation type (" + op.Type + ")"
				m.NoEcho = true
			}
			sh.dropObligation(op.Key)
		}
		sh.mu.Unlock()
		_ = s.sc.RMProxy.UpdateAllocation(&si.AllocationRequest{RmID: sh.rmID, Releases: &si.AllocationReleasesRequest{AllocationsToRelease: []*si.AllocationRelease{
			{PartitionName: "default", ApplicationID: op.AppID, AllocationKey: op.Key, TerminationType: termType(op.Type), Message: "shim release"}}}})
		sh.mu.Lock()
	case "confirm":
		relType := op.Type
		if m := sh.Allocs[op.Key]; m != nil && m.Status == stReleasing {
			if m.RelType != "" && relType != m.RelType && op.Fault != "confirm_wrong_type" {
				// a confirmation the minimiser moved to another release of the same key: the shim confirms what it
				// was asked for (a wrong type is a fault of its own, and marked as such)
				relType = m.RelType
			}
			m.Status = stGone
			m.RejectReason = "release confirmed (" + m.RelType + ")"
			infl.confirms[op.Key] = true
			sh.dropObligation(op.Key)
		} else if m != nil && m.Status != stGone {
			// nothing to confirm (a confirmation the minimiser left without its context): what goes out is an
			// ordinary release by the shim
			relType = "STOPPED_BY_RM"
			m.WasBound = m.live()
			m.ReleaseSent = true
			m.Status = stGone
			m.RejectReason = "released by the shim (" + relType + ")"
			infl.releases[op.Key] = true
		}
		sh.mu.Unlock()
		_ = s.sc.RMProxy.UpdateAllocation(&si.AllocationRequest{RmID: sh.rmID, Releases: &si.AllocationReleasesRequest{AllocationsToRelease: []*si.AllocationRelease{
			{PartitionName: "default", ApplicationID: op.AppID, AllocationKey: op.Key, TerminationType: termType(relType), Message: "shim confirmation"}}}})
		sh.mu.Lock()
	case "sched":
		sh.sched = true
		sh.mu.Unlock()
		if !s.cfg.Auto {
			s.sc.Scheduler.SimScheduleOnce()
		}
		sh.mu.Lock()
	case "rest":
		sh.mu.Unlock()
		s.restRead(op.N)
		sh.mu.Lock()
	case "tick":
		sh.mu.Unlock()
		switch op.Type {
		case "quota":
			s.sc.Scheduler.SimQuotaPreemptionTick()
		case "inspect":
			s.sc.Scheduler.SimInspectOutstanding()
		case "cleanup":
			if pc := s.sc.Scheduler.GetClusterContext().GetPartition(s.part); pc != nil {
				pc.SimCleanupTick()
			}
		}
		sh.mu.Lock()
	default:
		sh.mu.Unlock()
		s.execMore(op)
		sh.mu.Lock()
	}
}

// ---- the step loop --------------------------------------------------------------------------------

// doStep executes op, waits for quiescence, snapshots and runs the oracles.
func (s *Sim) doStep(op Op) {
	s.step++
	s.steps++
	s.shim.mu.Lock()
	s.shim.Step = s.step
	s.shim.StepEvents = s.shim.StepEvents[:0]
	s.shim.sched = false
	s.shim.Preds = s.shim.Preds[:0]
	s.shim.mu.Unlock()
	s.ops = append(s.ops, op)
	switch op.Kind {
	case "advance":
		s.c.advanceClock(time.Duration(op.Ms)*time.Millisecond, time.Duration(op.Quantum)*time.Millisecond)
	case "timed":
		// the sub-operations are carried out by a goroutine of their own when the fake clock reaches now+Ms:
		// at the very instant at which a timer of the core may fire; the conductor decides who goes first
		d := time.Duration(op.Ms) * time.Millisecond
		subs := op.Sub
		s.c.spawn(func() {
			time.Sleep(d)
			s.c.yield("timed")
			for _, sub := range subs {
				s.exec(sub)
			}
		}, false)
		s.c.settle()
	case "batch":
		for i := range op.Sub {
			sub := op.Sub[i]
			s.c.spawn(func() { s.exec(sub) }, false)
		}
		s.c.settle()
	default:
		s.exec(op)
		s.c.settle()
	}
	s.quiescent(op)
}

func (s *Sim) quiescent(op Op) {
	s.quiescents++
	s.shim.mu.Lock()
	s.shim.clearInFlight()
	evs := append([]SIEvent(nil), s.shim.StepEvents...)
	preds := append([]PredCall(nil), s.shim.Preds...)
	if len(s.shim.violations) > 0 {
		s.violations = append(s.violations, s.shim.violations...)
		s.shim.violations = nil
	}
	s.shim.mu.Unlock()
	s.pre = s.post
	s.post = TakeSnap(s.sc.Scheduler, s.part)
	if op.Kind == "batch" {
		// a foreign allocation reported for a node while the removal of that node travels on the other channel: the
		// known cross-channel removal race, for allocations that belong to no application (marker on the node)
		for _, rm := range op.Sub {
			if rm.Kind != "node_remove" {
				continue
			}
			for _, sub := range op.Sub {
				if sub.Kind != "ask" {
					continue
				}
				for _, a := range sub.Asks {
					if a.Foreign != "" && a.Node == rm.Node {
						s.shim.mu.Lock()
						s.shim.taint("node:"+rm.Node, "removal-race")
						s.shim.mu.Unlock()
					}
				}
			}
		}
		// a release that travelled next to the scheduling cycle which linked the same ask to a placeholder as its
		// replacement: the known "ask released during swap" history, decided inside this step
		s.shim.mu.Lock()
		for _, sub := range op.Sub {
			if sub.Kind != "release" || sub.AppID == "" {
				continue
			}
			m := s.shim.Allocs[sub.Key]
			a := s.post.Apps[sub.AppID]
			if m == nil || a == nil {
				continue
			}
			if !m.WasBound {
				// the shim released an ask it held as pending while a scheduling cycle of the same batch was binding
				// it: known finding (the release removes the ask around the allocation, which stays on the node and in
				// the queue without belonging to the application)
				for _, nid := range sortedKeys(s.post.Nodes) {
					if s.post.Nodes[nid].Allocs[sub.Key] != nil {
						s.shim.taint(m.App, "release-races-allocation")
						s.probe("release_races_allocation")
					}
				}
			}
			if m.Placeholder {
				continue
			}
			linked := false
			if ask := a.Asks[sub.Key]; ask != nil && ask.ReleaseKey != "" {
				linked = true
			}
			for _, al := range a.Allocs {
				// (the released ask itself is gone from the application's requests, the placeholder still points at it)
				if al.Placeholder && al.ReleaseKey == sub.Key {
					linked = true
				}
			}
			if linked && !m.ReleasedDuringSwap {
				m.ReleasedDuringSwap = true
				s.shim.taint(m.App, "ask-released-during-swap")
				s.probe("ask_released_during_swap")
			}
		}
		s.shim.mu.Unlock()
	}
	if s.cfg.Freeze {
		s.shim.mu.Lock()
		s.freeze("step")
		s.shim.mu.Unlock()
	}
	for _, e := range evs {
		if e.Kind == "new" {
			s.everBound++ // allocations the core announced as bound (whatever kind of step, also under the live loops)
		}
	}
	nv := len(s.violations)
	s.runOracles(op, evs, preds)
	s.noteState()
	if traceOn {
		fmt.Fprintf(os.Stderr, "step %d t=%s %s => %s\n", s.step, time.Since(s.simStart), op.String(), fmtEvents(evs))
		for _, v := range s.violations[nv:] {
			fmt.Fprintf(os.Stderr, "    VIOLATION %s %s\n", v.Sig, v.Msg)
		}
	}
}

var traceOn = os.Getenv("VERIF_TRACE") != ""

func (s *Sim) noteState() {
	if s.post == nil {
		return
	}
	h := uint64(1469598103934665603)
	for _, id := range sortedKeys(s.post.Queues) {
		q := s.post.Queues[id]
		h = hashStr(h, id+q.Alloc.String()+q.Pending.String()+q.Status)
		h = hashStr(h, fmt.Sprint(q.Running, len(q.Allocating)))
	}
	for _, id := range sortedKeys(s.post.Nodes) {
		n := s.post.Nodes[id]
		h = hashStr(h, id+n.Alloc.String()+n.Cap.String()+fmt.Sprint(n.Schedulable, len(n.Reserved)))
	}
	for _, id := range sortedKeys(s.post.Apps) {
		a := s.post.Apps[id]
		h = hashStr(h, id+a.State+a.Alloc.String()+a.Pending.String())
	}
	if len(s.stateSet) < 1<<16 {
		s.stateSet[h] = true
	}
}

// owed confirmations: decide, per obligation, what the shim does about it.
func (s *Sim) handleObligations() {
	s.shim.mu.Lock()
	owed := append([]Obligation(nil), s.shim.Owed...)
	s.shim.mu.Unlock()
	sort.Slice(owed, func(i, j int) bool { return owed[i].Key < owed[j].Key })
	for _, o := range owed {
		if _, seen := s.confirmDelay[o.Key]; !seen {
			d := 0
			switch {
			case s.faultOn("confirm_lost") && s.frng.Bool(s.cfg.FaultRate*2):
				d = -1
				s.faults["confirm_lost"]++
			case s.faultOn("confirm_late") && s.frng.Bool(s.cfg.FaultRate*6):
				d = s.frng.Range(1, 12)
				s.faults["confirm_late"]++
			}
			s.confirmDelay[o.Key] = d
		}
		d := s.confirmDelay[o.Key]
		if d < 0 {
			continue
		}
		if d > 0 {
			s.confirmDelay[o.Key] = d - 1
			continue
		}
		typ := o.Type.String()
		if s.faultOn("confirm_wrong_type") && s.frng.Bool(s.cfg.FaultRate) {
			typ = pick(s.frng, []string{"STOPPED_BY_RM", "TIMEOUT", "PREEMPTED_BY_SCHEDULER", "PLACEHOLDER_REPLACED"})
			if typ != o.Type.String() {
				s.faults["confirm_wrong_type"]++
			}
		}
		cop := Op{Kind: "confirm", Key: o.Key, AppID: o.App, Type: typ}
		if typ != o.Type.String() {
			cop.Fault = "confirm_wrong_type"
		}
		s.doStep(cop)
		if s.faultOn("confirm_dup") && s.frng.Bool(s.cfg.FaultRate*4) {
			s.faults["confirm_dup"]++
			cop.Fault = "confirm_dup"
			s.doStep(cop)
		}
	}
}

// deliverAllOwed is used by the drain phase: faults have stopped, every owed confirmation arrives.
func (s *Sim) deliverAllOwed() {
	for round := 0; round < 50; round++ {
		s.shim.mu.Lock()
		owed := append([]Obligation(nil), s.shim.Owed...)
		s.shim.mu.Unlock()
		if len(owed) == 0 {
			return
		}
		sort.Slice(owed, func(i, j int) bool { return owed[i].Key < owed[j].Key })
		for _, o := range owed {
			s.doStep(Op{Kind: "confirm", Key: o.Key, AppID: o.App, Type: o.Type.String()})
		}
	}
}

// predicateSideEffect: called from inside the shim's Predicates callback (on the scheduling goroutine, no core
// lock held): something happens to the node under evaluation and the core processes it before the predicate
// returns. A correct scheduler re-checks the node under its lock before it binds.
func (s *Sim) predicateSideEffect(node, key string) {
	s.shim.mu.Lock()
	n := s.shim.Nodes[node]
	if n == nil || n.Status != "accepted" {
		s.shim.mu.Unlock()
		return
	}
	free := n.Cap.Sub(s.shim.nodeForeign(node)).Sub(s.shim.nodeUsage(node))
	var op Op
	s.nAsk++
	switch s.frng.Intn(2) {
	case 0:
		// a foreign pod takes (almost) everything that is free
		r := Res{}
		for t, v := range free {
			if v > 0 {
				r[t] = v
			}
		}
		if len(r) == 0 {
			s.shim.mu.Unlock()
			return
		}
		op = Op{Kind: "ask", Asks: []AskArgs{{Key: fmt.Sprintf("foreign-se-%d", s.nAsk), Res: r, Node: node, Foreign: "default"}}, Fault: "predicate_side_effect"}
	default:
		// the node shrinks to what is in use
		cap := n.Cap.Sub(free)
		for t, v := range cap {
			if v < 0 {
				cap[t] = 0
			}
		}
		op = Op{Kind: "node_update", Node: node, Cap: cap, Fault: "predicate_side_effect"}
	}
	s.shim.mu.Unlock()
	s.faults["predicate_side_effect"]++
	s.sideOps = append(s.sideOps, op)
	s.exec(op)
	s.c.settle()
}
