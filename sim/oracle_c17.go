package sim

import (
	"github.com/apache/yunikorn-core/pkg/common/security"
	"strings"

	"github.com/apache/yunikorn-core/pkg/common/configs"
)

// ---- C17: placement ------------------------------------------------------------------------------------
// A reference evaluation of the rule chain on the queue tree as it was before the submission (structure and
// state observed from the core, ACLs and rules from the configuration text).

type placeResult struct {
	queue  string // "" = rejected
	rule   int
	reason string
	abort  bool // a rule failed with an error: placement stops
}

func aclAllows(acl string, user string, groups []string) bool {
	if strings.TrimSpace(acl) == "*" {
		return true
	}
	if acl == "" {
		return false
	}
	// "users groups": users separated by commas, one space, groups separated by commas; either part may be empty
	fields := strings.Split(acl, " ")
	if len(fields) > 2 {
		return false
	}
	for _, u := range strings.Split(fields[0], ",") {
		if u == "*" || (u != "" && u == user) {
			return true
		}
	}
	if len(fields) == 2 {
		grps := strings.Split(fields[1], ",")
		if len(grps) == 1 && grps[0] == "*" {
			return true
		}
		for _, g := range grps {
			for _, ug := range groups {
				if g != "" && g == ug {
					return true
				}
			}
		}
	}
	return false
}

// submitAllowed: the submit or admin ACL of the queue or of an ancestor admits the user.
func (s *Sim) submitAllowed(path string, user string, groups []string) bool {
	if strings.EqualFold(path, "root.@recovery@") {
		return false
	}
	for _, qp := range ancestors(path) {
		if q := s.specOf(qp); q != nil {
			if aclAllows(q.SubmitACL, user, groups) || aclAllows(q.AdminACL, user, groups) {
				return true
			}
		}
	}
	return false
}

func filterAdmits(r *RuleSpec, user string, groups []string) bool {
	if r.FType == "" && len(r.FUsers) == 0 && len(r.FGroup) == 0 {
		return true
	}
	allow := r.FType != "deny"
	if len(r.FUsers) == 0 && len(r.FGroup) == 0 {
		return allow
	}
	for _, u := range r.FUsers {
		if u == user {
			return allow
		}
	}
	for _, g := range groups {
		for _, fg := range r.FGroup {
			if fg == g {
				return allow
			}
		}
	}
	return !allow
}

func replaceDots(s string) string { return strings.ReplaceAll(s, ".", "_dot_") }

func validParts(path string) bool {
	for _, p := range strings.Split(path, ".") {
		if configs.IsQueueNameValid(p) != nil {
			return false
		}
	}
	return true
}

// evalRule returns the queue name a rule yields ("" = does not apply), or abort on an error.
func (s *Sim) evalRule(r *RuleSpec, a *MApp, tree *Snap) (string, bool) {
	var name string
	switch strings.ToLower(r.Name) {
	case "provided":
		name = a.Queue
	case "user":
		name = replaceDots(a.User)
	case "tag":
		name = a.Tags[r.Value]
	case "fixed":
		name = strings.ToLower(r.Value)
	}
	if name == "" {
		return "", false
	}
	if !filterAdmits(r, a.User, a.Groups) {
		return "", false
	}
	qualified := strings.HasPrefix(name, "root.")
	if strings.ToLower(r.Name) == "fixed" {
		qualified = strings.HasPrefix(name, "root")
	}
	if strings.ToLower(r.Name) == "user" {
		qualified = false
	}
	queue := name
	if qualified {
		if strings.ToLower(r.Name) != "fixed" && !validParts(name) {
			return "", true
		}
	} else {
		child := name
		if strings.ToLower(r.Name) != "fixed" {
			child = replaceDots(name)
			if configs.IsQueueNameValid(child) != nil {
				return "", true
			}
		}
		parent := ""
		if r.Parent != nil {
			pn, abort := s.evalRule(r.Parent, a, tree)
			if abort {
				return "", true
			}
			if pn == "" {
				return "", false
			}
			if !strings.HasPrefix(pn, "root.") {
				pn = "root." + pn
			}
			if pq := tree.Queues[pn]; pq != nil && pq.Leaf {
				return "", true
			}
			parent = pn
		}
		if parent == "" {
			parent = "root"
		}
		queue = parent + "." + child
	}
	if !r.Create && tree.Queues[queue] == nil {
		return "", false
	}
	return queue, false
}

func (s *Sim) referencePlacement(a *MApp, tree *Snap) placeResult {
	rules := s.conf.Rules
	if len(rules) == 0 {
		rules = []RuleSpec{{Name: "provided"}}
	}
	for i := range rules {
		q, abort := s.evalRule(&rules[i], a, tree)
		if abort {
			return placeResult{reason: "rule error", rule: i, abort: true}
		}
		if q == "" {
			continue
		}
		if strings.EqualFold(q, "root.@recovery@") && !a.Forced {
			// the recovery queue is never the result of a rule for an application that is not force created
			continue
		}
		if eq := tree.Queues[q]; eq != nil {
			if !eq.Leaf || eq.Status == "Draining" || !s.submitAllowed(q, a.User, a.Groups) {
				continue
			}
		} else {
			// walk up to the first queue that exists
			cur := q
			for tree.Queues[cur] == nil && strings.Contains(cur, ".") {
				cur = cur[:strings.LastIndex(cur, ".")]
			}
			if !s.submitAllowed(cur, a.User, a.Groups) {
				continue
			}
		}
		return placeResult{queue: q, rule: i}
	}
	// nothing matched: the default queue, under the same conditions as any rule result
	if dq := tree.Queues["root.default"]; dq != nil {
		if dq.Leaf && dq.Status != "Draining" && s.submitAllowed("root.default", a.User, a.Groups) {
			return placeResult{queue: "root.default", rule: -1}
		}
		return placeResult{reason: "no rule matched, default queue not usable"}
	}
	return placeResult{reason: "no rule matched"}
}

func (s *Sim) oracleC17(op Op, evs []SIEvent) {
	if op.Kind != "app_add" || s.pre == nil || op.App == nil || op.Fault == "req_dup" || op.Fault == "recovery" {
		return
	}
	a := s.shim.Apps[op.App.ID]
	if a == nil || a.UgiNil || a.User == "" || a.dupSubmitted() {
		return
	}
	if _, was := s.pre.Apps[a.ID]; was {
		return
	}
	ref := s.referencePlacement(a, s.pre)
	s.probe("placement_checked")
	switch a.Status {
	case "accepted":
		ca := s.post.Apps[a.ID]
		if ca == nil {
			return
		}
		q := ca.Queue
		if strings.EqualFold(q, "root.@recovery@") {
			if !a.Forced {
				s.violate("C17", "recovery-queue-for-normal-app", "", "application %s (not force created) was placed in the recovery queue", a.ID)
			}
			return
		}
		if a.Forced && (ref.queue == "" || ref.queue != q) {
			// forced applications fall back to the recovery queue, anything else must still be what the rules say
			s.probe("forced_app_placed")
		}
		pq := s.post.Queues[q]
		if pq == nil || !pq.Leaf {
			s.violate("C17", "placed-in-non-leaf", "", "application %s was accepted into %s which is not a leaf queue", a.ID, q)
			return
		}
		if old := s.pre.Queues[q]; old != nil {
			if old.Status != "Active" {
				s.violate("C17", "placed-in-inactive-queue", old.Status, "application %s was accepted into %s which was %s", a.ID, q, old.Status)
			}
		} else {
			// created now: only by a rule with create, valid names, under a non-leaf, with the parent's template
			s.probe("dynamic_queue_created")
			createOK := false
			for _, r := range s.conf.Rules {
				if r.Create {
					createOK = true
				}
			}
			if !createOK {
				s.violate("C17", "queue-created-without-create-rule", "", "application %s caused the creation of %s but no placement rule has create enabled", a.ID, q)
			}
			if !validParts(q) {
				s.violate("C17", "created-queue-invalid-name", "", "queue %s was created with an invalid name part", q)
			}
			cur := q
			for s.pre.Queues[cur] == nil && strings.Contains(cur, ".") {
				cur = cur[:strings.LastIndex(cur, ".")]
			}
			if anc := s.pre.Queues[cur]; anc != nil && anc.Leaf {
				s.violate("C17", "queue-created-under-leaf", "", "queue %s was created under %s which was a leaf", q, cur)
			}
			if pq.Managed {
				s.violate("C17", "created-queue-managed", "", "queue %s created by placement reports as managed", q)
			}
			// the template of the parent
			par := s.post.Queues[pq.Parent]
			if par != nil && par.Template != nil && a.Tags["namespace.resourcequota"] == "" && a.Tags["namespace.resourceguaranteed"] == "" {
				if !pq.Max.Eq(ResFromDAO(par.Template.MaxResource)) {
					s.violate("C17", "template-not-applied", "max", "queue %s created under %s has maximum %s, the parent's child template says %v", q, pq.Parent, pq.Max, par.Template.MaxResource)
				}
				if a.Tags["namespace.resourcemaxapps"] == "" && pq.MaxApps != par.Template.MaxApplications {
					s.violate("C17", "template-not-applied", "maxapps", "queue %s created under %s has max applications %d, the parent's child template says %d", q, pq.Parent, pq.MaxApps, par.Template.MaxApplications)
				}
			}
		}
		if !a.Forced {
			if !s.submitAllowed(q, a.User, a.Groups) {
				s.violate("C17", "placed-without-acl", "", "application %s of user %s (groups %v) was accepted into %s: neither the submit nor the admin ACL of it or an ancestor admits the user", a.ID, a.User, a.Groups, q)
			}
			if ref.queue != q {
				s.violate("C17", "not-the-first-matching-rule", "", "application %s (queue %q user %s tags %v) was placed in %s, the rules in order yield %q (%s)", a.ID, a.Queue, a.User, a.Tags, q, ref.queue, ref.reason)
			}
		}
	case "rejected":
		if strings.Contains(a.RejectMsg, "failed to place application") && ref.queue != "" && !ref.abort {
			// the queue may still fail to be created under a leaf
			cur := ref.queue
			for s.pre.Queues[cur] == nil && strings.Contains(cur, ".") {
				cur = cur[:strings.LastIndex(cur, ".")]
			}
			if anc := s.pre.Queues[cur]; anc == nil || !anc.Leaf || s.pre.Queues[ref.queue] != nil {
				s.violate("C17", "rejected-although-a-rule-matches", "", "application %s (queue %q user %s tags %v) was rejected (%s), rule %d yields %s", a.ID, a.Queue, a.User, a.Tags, a.RejectMsg, ref.rule, ref.queue)
			}
		}
		if a.RejectMsg == "" {
			s.violate("C17", "rejected-without-reason", "", "application %s was rejected without a reason", a.ID)
		}
	}
}

// adminAllowed: the admin ACL of the queue or of an ancestor admits the user.
func (s *Sim) adminAllowed(path string, user string, groups []string) bool {
	for _, qp := range ancestors(path) {
		if q := s.specOf(qp); q != nil && aclAllows(q.AdminACL, user, groups) {
			return true
		}
	}
	return false
}

// checkACLState: the access every configured queue gives every user of the world is the access the active
// configuration describes (asked through the exported access checks of the queue objects). Called after the
// registration and after every accepted reload.
func (s *Sim) checkACLState(when string) {
	pc := s.sc.Scheduler.GetClusterContext().GetPartition(s.part)
	if pc == nil {
		return
	}
	for _, path := range s.conf.allQueues() {
		q := pc.GetQueue(path)
		if q == nil {
			continue
		}
		for _, u := range s.world.Users {
			ug := security.UserGroup{User: u.Name, Groups: u.Groups}
			s.probe("acl_state_checked")
			if got, want := q.CheckSubmitAccess(ug), s.submitAllowed(path, u.Name, u.Groups); got != want {
				s.violate("C17", "acl-not-as-configured", "submit-"+when, "queue %s gives user %s (groups %v) submit access=%v, the active configuration says %v", path, u.Name, u.Groups, got, want)
				return
			}
			if got, want := q.CheckAdminAccess(ug), s.adminAllowed(path, u.Name, u.Groups); got != want {
				s.violate("C17", "acl-not-as-configured", "admin-"+when, "queue %s gives user %s (groups %v) admin access=%v, the active configuration says %v", path, u.Name, u.Groups, got, want)
				return
			}
		}
	}
}

// specOf: the configured form of a queue: from the active configuration, or, for a queue that left the configuration
// and is draining until it is empty, the form it had when it left (it keeps its ACLs until it is removed).
func (s *Sim) specOf(path string) *QSpec {
	if q := s.conf.Find(path); q != nil {
		return q
	}
	return s.ghosts[path]
}
