package sim

import (
	"strings"

	"github.com/apache/yunikorn-core/pkg/scheduler/ugm"
	"github.com/apache/yunikorn-core/pkg/webservice/dao"
)

// ---- M_conf: limit in force ------------------------------------------------------------------------

// userLimit returns the limit in force for the user on the queue: named, else wildcard, else nil.
func (c *ConfSpec) userLimit(path, user string) *LimitSpec {
	q := c.Find(path)
	if q == nil {
		return nil
	}
	var wild *LimitSpec
	for i := range q.Limits {
		l := &q.Limits[i]
		for _, u := range l.Users {
			if u == user {
				return l
			}
			if u == "*" {
				wild = l
			}
		}
	}
	return wild
}

func (c *ConfSpec) namedUserLimit(path, user string) *LimitSpec {
	q := c.Find(path)
	if q == nil {
		return nil
	}
	for i := range q.Limits {
		for _, u := range q.Limits[i].Users {
			if u == user {
				return &q.Limits[i]
			}
		}
	}
	return nil
}

// groupLimit returns the limit configured on the queue for exactly this group name ("*" for the wildcard).
func (c *ConfSpec) groupLimit(path, group string) *LimitSpec {
	q := c.Find(path)
	if q == nil {
		return nil
	}
	for i := range q.Limits {
		for _, g := range q.Limits[i].Groups {
			if g == group {
				return &q.Limits[i]
			}
		}
	}
	return nil
}

// resolveGroup: first configured group from the leaf upwards, in configuration order, else the wildcard.
func (c *ConfSpec) resolveGroup(path string, groups []string) string {
	for p := path; p != ""; {
		if q := c.Find(p); q != nil {
			for _, l := range q.Limits {
				for _, cg := range l.Groups {
					if cg == "*" {
						continue
					}
					for _, g := range groups {
						if g == cg {
							return cg
						}
					}
				}
			}
			for _, l := range q.Limits {
				for _, cg := range l.Groups {
					if cg == "*" {
						return "*"
					}
				}
			}
		}
		i := strings.LastIndex(p, ".")
		if i < 0 {
			break
		}
		p = p[:i]
	}
	return ""
}

// ---- observation of the user/group manager ----------------------------------------------------------

type trackerSnap struct {
	Name   string
	Groups map[string]string // user trackers: application -> group
	Apps   []string          // group trackers
	Queues map[string]*dao.ResourceUsageDAOInfo
}

func flattenUsage(d *dao.ResourceUsageDAOInfo, out map[string]*dao.ResourceUsageDAOInfo) {
	if d == nil {
		return
	}
	out[d.QueuePath] = d
	for _, c := range d.Children {
		flattenUsage(c, out)
	}
}

func snapUGM() (users, groups map[string]*trackerSnap) {
	users = map[string]*trackerSnap{}
	groups = map[string]*trackerSnap{}
	m := ugm.GetUserManager()
	for _, ut := range m.GetUserTrackers() {
		d := ut.GetResourceUsageDAOInfo()
		t := &trackerSnap{Name: d.UserName, Groups: d.Groups, Queues: map[string]*dao.ResourceUsageDAOInfo{}}
		flattenUsage(d.Queues, t.Queues)
		users[d.UserName] = t
	}
	for _, gt := range m.GetGroupTrackers() {
		d := gt.GetResourceUsageDAOInfo()
		t := &trackerSnap{Name: d.GroupName, Apps: d.Applications, Queues: map[string]*dao.ResourceUsageDAOInfo{}}
		flattenUsage(d.Queues, t.Queues)
		groups[d.GroupName] = t
	}
	return
}

// admittedApps: applications (of the user, or restricted to only) placed at or below path that count as
// admitted: they have had an allocation and have not been without allocations and asks since.
func (s *Sim) admittedApps(user, path string, only map[string]bool) int {
	n := 0
	for id, a := range s.shim.Apps {
		if !a.Admitted || (user != "" && a.User != user) || (only != nil && !only[id]) {
			continue
		}
		// an application the core has reported as terminated no longer runs, whatever the shim still has to confirm
		if n := len(a.States); n > 0 && terminalState(a.States[n-1]) {
			continue
		}
		q := s.appQueue(id)
		if q == path || strings.HasPrefix(q, path+".") {
			n++
		}
	}
	return n
}

// updateAdmitted is called at every quiescent point after the oracles.
func (s *Sim) updateAdmitted(evs []SIEvent) {
	for _, e := range evs {
		if e.Kind == "new" {
			if a := s.shim.Apps[e.App]; a != nil {
				a.Admitted = true
			}
		}
	}
	busy := map[string]bool{}
	for _, m := range s.shim.Allocs {
		if m.Status != stGone {
			busy[m.App] = true
		}
	}
	for id, a := range s.shim.Apps {
		if a.Admitted && !busy[id] {
			a.Admitted = false
		}
	}
}

// userUsage: shim-view usage of the user's applications placed at or below path.
func (s *Sim) userUsage(user, path string, only map[string]bool) (Res, int) {
	if s.cache == nil {
		s.buildCache()
	}
	sum := Res{}
	n := 0
	for app, r := range s.cache.liveByApp {
		a := s.shim.Apps[app]
		if a == nil || (user != "" && a.User != user) {
			continue
		}
		if only != nil && !only[app] {
			continue
		}
		q := s.cache.appQ[app]
		if q == path || strings.HasPrefix(q, path+".") {
			sum.AddTo(r)
			n++
		}
	}
	return sum, n
}

// ---- C05 -------------------------------------------------------------------------------------------

func (s *Sim) oracleC05(op Op, evs []SIEvent) {
	users, groups := snapUGM()
	conf := s.conf
	// usage tracking across a reload that adds, drops or moves limits is part of the known reload defect family
	ar := ""
	if s.reloadsOK > 0 {
		ar = "after-reload"
	}
	// (2) tracked usage = sum of live allocations
	swapInFlight := false
	for _, n := range s.post.Nodes {
		for _, al := range n.Allocs {
			if s.isInflightRealHalf(al) {
				swapInFlight = true
			}
		}
	}
	if !swapInFlight {
		for _, un := range sortedKeys(users) {
			t := users[un]
			for _, qp := range sortedKeys(t.Queues) {
				want, _ := s.userUsage(un, qp, nil)
				got := ResFromDAO(t.Queues[qp].ResourceUsage)
				if !got.Eq(want) {
					detail := ar
					// allocations a Failed application left behind on the nodes (known defect, see C03
					// node-alloc-orphan:app-Failed) stay in the usage of its user as well
					extra := Res{}
					for _, n := range s.post.Nodes {
						for _, al := range n.Allocs {
							if d := s.post.Done[al.App]; d != nil && (d.State == "Failed" || d.State == "Failing") && d.User == un && (d.Queue == qp || strings.HasPrefix(d.Queue, qp+".")) {
								extra.AddTo(al.Res)
							}
						}
					}
					if !extra.IsZero() && got.Eq(want.Add(extra)) {
						detail = "orphans-of-failed-app"
					}
					s.violate("C05", "user-usage", detail, "user %s is tracked with %s on %s, the live allocations of its applications there sum to %s", un, got, qp, want)
				}
			}
		}
		// every user with live allocations is tracked on every queue of the path
		for _, id := range s.shim.liveAppIDs() {
			a := s.shim.Apps[id]
			if a.User == "" {
				continue
			}
			q := s.appQueue(id)
			if q == "" {
				continue
			}
			for _, qp := range ancestors(q) {
				want, _ := s.userUsage(a.User, qp, nil)
				if want.IsZero() {
					continue
				}
				t := users[a.User]
				if t == nil || t.Queues[qp] == nil {
					s.violate("C05", "user-untracked", ar, "user %s has live allocations %s under %s but is not tracked there", a.User, want, qp)
				}
			}
		}
		for _, gn := range sortedKeys(groups) {
			t := groups[gn]
			// the applications resolved to this group, as reported by the user trackers
			only := map[string]bool{}
			for _, ut := range users {
				for app, g := range ut.Groups {
					if g == gn {
						only[app] = true
					}
				}
			}
			for _, qp := range sortedKeys(t.Queues) {
				want, _ := s.userUsage("", qp, only)
				got := ResFromDAO(t.Queues[qp].ResourceUsage)
				if !got.Eq(want) {
					detail := ar
					// applications the user trackers no longer link to any group but that still hold allocations
					// (an application whose last real allocation went while placeholders remain is unlinked early)
					unlinked := map[string]bool{}
					for app := range s.cache.liveByApp {
						linked := false
						for _, ut := range users {
							if _, ok := ut.Groups[app]; ok {
								linked = true
							}
						}
						if !linked {
							unlinked[app] = true
						}
					}
					if s.groupLeak == nil {
						s.groupLeak = map[string]Res{}
					}
					lk := gn + "|" + qp
					if len(unlinked) > 0 {
						if extra, _ := s.userUsage("", qp, unlinked); got.Eq(want.Add(extra)) {
							detail = "allocations-of-unlinked-application"
							// what was unlinked never comes back: remember the amount
							s.groupLeak[lk] = extra.Add(s.groupLeak[lk+"|done"])
						}
					}
					if detail != "allocations-of-unlinked-application" {
						if leaked, ok := s.groupLeak[lk]; ok && got.Eq(want.Add(leaked)) {
							detail = "allocations-of-unlinked-application"
							s.groupLeak[lk+"|done"] = leaked
						}
					}
					s.violate("C05", "group-usage", detail, "group %s is tracked with %s on %s, the live allocations of its applications there sum to %s", gn, got, qp, want)
				}
			}
		}
	}
	// the group resolved for an application is one the configuration yields (no reload in this run: the
	// resolution happens once, at the first scheduling attempt)
	if s.reloadsOK == 0 {
		for _, un := range sortedKeys(users) {
			for _, app := range sortedKeys(users[un].Groups) {
				g := users[un].Groups[app]
				a := s.shim.Apps[app]
				q := s.appQueue(app)
				if a == nil || q == "" {
					continue
				}
				want := conf.resolveGroup(q, a.Groups)
				if g != want {
					s.violate("C05", "group-resolution", "", "application %s of user %s (groups %v) in %s is tracked under group %q, the configuration resolves %q", app, un, a.Groups, q, g, want)
				}
			}
		}
	}
	// (3) the limits in force are exactly those of the latest accepted configuration
	s.probe("limit_dao_checked")
	for _, un := range sortedKeys(users) {
		t := users[un]
		for _, qp := range sortedKeys(t.Queues) {
			d := t.Queues[qp]
			lim := conf.userLimit(qp, un)
			s.compareLimit("user", un, qp, d, lim)
		}
	}
	conf.Root.walk("", func(path string, q *QSpec, _ *QSpec) {
		for _, l := range q.Limits {
			for _, u := range l.Users {
				if u == "*" {
					continue
				}
				t := users[u]
				if t == nil || t.Queues[path] == nil {
					s.violate("C05", "named-limit-lost", "user", "the configuration limits user %s on %s but no tracker shows that limit", u, path)
				}
			}
			for _, g := range l.Groups {
				if g == "*" {
					continue
				}
				t := groups[g]
				if t == nil || t.Queues[path] == nil {
					s.violate("C05", "named-limit-lost", "group", "the configuration limits group %s on %s but no tracker shows that limit", g, path)
				}
			}
		}
	})
	for _, gn := range sortedKeys(groups) {
		t := groups[gn]
		for _, qp := range sortedKeys(t.Queues) {
			d := t.Queues[qp]
			lim := conf.groupLimit(qp, gn)
			s.compareLimit("group", gn, qp, d, lim)
		}
	}
	// (1) per scheduling decision
	if op.Kind != "sched" || s.pre == nil {
		return
	}
	for _, e := range evs {
		if e.Kind != "new" {
			continue
		}
		m := s.shim.Allocs[e.Key]
		a := s.shim.Apps[e.App]
		leaf := s.appQueue(e.App)
		if m == nil || a == nil || leaf == "" || a.User == "" {
			continue
		}
		group := ""
		if ut := users[a.User]; ut != nil {
			group = ut.Groups[e.App]
		}
		for _, qp := range ancestors(leaf) {
			if lim := conf.userLimit(qp, a.User); lim != nil {
				usage, _ := s.userUsage(a.User, qp, nil)
				napps := s.admittedApps(a.User, qp, nil) + 1
				s.probe("user_limit_checked")
				if lim.MaxRes != nil && exceedsOn(usage, lim.MaxRes, m.Res) {
					s.violate("C05", "user-above-limit", ar, "scheduler bound %s %s: usage of user %s on %s becomes %s, the limit in force is %s", e.Key, m.Res, a.User, qp, usage, lim.MaxRes)
				}
				if lim.MaxApps != 0 && !a.Admitted && uint64(napps) > lim.MaxApps {
					s.violate("C05", "user-above-maxapps", s.admissionDetail(e.App), "scheduler gave application %s its first allocation %s: user %s then has %d admitted applications under %s, the limit in force is %d", e.App, e.Key, a.User, napps, qp, lim.MaxApps)
				}
			}
			if group == "" {
				continue
			}
			if lim := conf.groupLimit(qp, group); lim != nil {
				only := map[string]bool{}
				for _, ut := range users {
					for app, g := range ut.Groups {
						if g == group {
							only[app] = true
						}
					}
				}
				usage, _ := s.userUsage("", qp, only)
				delete(only, e.App)
				napps := s.admittedApps("", qp, only) + 1
				s.probe("user_limit_checked")
				if lim.MaxRes != nil && exceedsOn(usage, lim.MaxRes, m.Res) {
					s.violate("C05", "group-above-limit", ar, "scheduler bound %s %s: usage of group %s on %s becomes %s, the limit in force is %s", e.Key, m.Res, group, qp, usage, lim.MaxRes)
				}
				if lim.MaxApps != 0 && !a.Admitted && uint64(napps) > lim.MaxApps {
					s.violate("C05", "group-above-maxapps", s.admissionDetail(e.App), "scheduler gave application %s its first allocation %s: group %s then has %d admitted applications under %s, the limit in force is %d", e.App, e.Key, group, napps, qp, lim.MaxApps)
				}
			}
		}
	}
}

func (s *Sim) compareLimit(kind, name, qp string, d *dao.ResourceUsageDAOInfo, lim *LimitSpec) {
	got := ResFromDAO(d.MaxResources)
	if lim == nil {
		if d.MaxResources != nil && !got.IsZero() || d.MaxApplications != 0 {
			s.violate("C05", "stale-limit", kind, "%s %s shows limit %s / %d applications on %s, the latest configuration has no limit for it there", kind, name, got, d.MaxApplications, qp)
		}
		return
	}
	want := lim.MaxRes
	if want == nil {
		want = Res{}
	}
	if !got.Eq(want) || d.MaxApplications != lim.MaxApps {
		s.violate("C05", "wrong-limit", kind, "%s %s shows limit %s / %d applications on %s, the latest configuration says %s / %d", kind, name, got, d.MaxApplications, qp, want, lim.MaxApps)
	}
}

// exceedsOn: usage is above max on a type the allocation itself uses (a decision cannot be blamed for a
// type it does not touch: usage above a limit can pre-exist through forced changes or a lowered limit).
func exceedsOn(usage, max, alloc Res) bool {
	for t, mv := range max {
		if alloc[t] > 0 && usage[t] > mv {
			return true
		}
	}
	return false
}

// admissionDetail classifies how the application got to its first allocation: the user/group gate is only
// applied to applications in the Accepted state, so one that went Completing -> Running on a new ask
// without ever holding an allocation passes ungated.
func (s *Sim) admissionDetail(app string) string {
	if s.pre == nil {
		return ""
	}
	a := s.pre.Apps[app]
	if a == nil {
		return ""
	}
	if a.State == "Running" && contains(a.StateLog, "Completing") {
		return "restarted-from-completing"
	}
	if a.State != "Accepted" {
		return "state-" + a.State
	}
	if s.reloadsOK > 0 {
		// the counts the gate works with are those of the trackers, which a reload that adds or moves limits under
		// running applications leaves wrong (known finding, reload logic of ugm.Manager)
		return "after-reload"
	}
	return ""
}
