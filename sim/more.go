package sim

// extension points filled in as further properties get their workloads and oracles

func (s *Sim) execMore(op Op) {}

func (s *Sim) genMore(kind string) (Op, bool) { return Op{}, false }

func (s *Sim) oracleMore(op Op, evs []SIEvent, preds []PredCall) {}

func (s *Sim) checkDrainedMore() {}
