package sim

// extension points filled in as further properties get their workloads and oracles

func (s *Sim) execMore(op Op) {
	switch op.Kind {
	case "reload":
		s.execReload(op)
	case "malformed":
		s.execMalformed(op)
	}
}

func (s *Sim) genMore(kind string) (Op, bool) {
	switch kind {
	case "reload":
		return s.genReload()
	case "malformed":
		return s.genMalformed()
	}
	return Op{}, false
}

func (s *Sim) oracleMore(op Op, evs []SIEvent, preds []PredCall) {
	s.oracleC02(op, evs)
	s.oracleC05(op, evs)
	s.oracleC16(op, evs)
	s.oracleC06(op, evs)
	s.oracleC13(op, evs)
	s.oracleC07(op, evs)
	s.oracleC17(op, evs)
	s.oracleC19(op)
}

func (s *Sim) checkDrainedMore() {}
