package sim

import "strings"

// stepCache holds per-quiescent-point sums so that the oracles do not rescan all allocations for
// every (queue, user) pair.
type stepCache struct {
	appQ      map[string]string
	liveByApp map[string]Res
}

func (s *Sim) buildCache() {
	c := &stepCache{appQ: map[string]string{}, liveByApp: map[string]Res{}}
	for _, snap := range []*Snap{s.pre, s.post} {
		if snap == nil {
			continue
		}
		for id, a := range snap.Done {
			c.appQ[id] = a.Queue
		}
		for id, a := range snap.Apps {
			c.appQ[id] = a.Queue
		}
	}
	for _, m := range s.shim.Allocs {
		if !m.live() {
			continue
		}
		r := c.liveByApp[m.App]
		if r == nil {
			r = Res{}
			c.liveByApp[m.App] = r
		}
		r.AddTo(m.Res)
	}
	s.cache = c
}

// appQueue: the leaf the core placed the application in (observed through the application DAO).
func (s *Sim) appQueue(id string) string {
	if s.cache == nil {
		s.buildCache()
	}
	return s.cache.appQ[id]
}

// queueUsage: sum of the shim-view live allocations of applications placed at or below path.
func (s *Sim) queueUsage(path string) Res {
	if s.cache == nil {
		s.buildCache()
	}
	sum := Res{}
	for app, r := range s.cache.liveByApp {
		q := s.cache.appQ[app]
		if q == path || strings.HasPrefix(q, path+".") {
			sum.AddTo(r)
		}
	}
	return sum
}

// ---- C02: scheduling never takes a queue above its maximum ------------------------------------------

func (s *Sim) oracleC02(op Op, evs []SIEvent) {
	p := s.post
	// the effective limit of a queue is never looser than its parent's
	for _, path := range sortedKeys(p.Queues) {
		q := p.Queues[path]
		if q.Parent == "" || !q.HasHead {
			continue
		}
		pq := p.Queues[q.Parent]
		if pq == nil || !pq.HasHead {
			continue
		}
		for t, v := range pq.HeadRoom {
			if cv, ok := q.HeadRoom[t]; ok && cv > v {
				s.violate("C02", "headroom-looser-than-parent", "", "queue %s reports headroom %s, its parent %s only %s", path, q.HeadRoom, q.Parent, pq.HeadRoom)
				break
			} else if !ok && q.HasMax {
				// the parent limits a type the child's headroom does not mention at all: the child is looser
				s.violate("C02", "headroom-misses-parent-type", "", "queue %s reports headroom %s without type %s which its parent %s limits to %d", path, q.HeadRoom, t, q.Parent, v)
				break
			}
		}
	}
	if op.Kind != "sched" || s.pre == nil {
		return
	}
	// a replacement decided in this cycle puts the real ask in the place of its placeholder: what it asks beyond the
	// placeholder is new usage of the queue path, decided by the scheduler like any other allocation
	for _, e := range evs {
		if e.Kind != "released" || e.Type != "PLACEHOLDER_REPLACED" {
			continue
		}
		app := s.post.Apps[e.App]
		if app == nil || app.Allocs[e.Key] == nil || app.Allocs[e.Key].ReleaseKey == "" {
			continue
		}
		if pa := s.pre.Apps[e.App]; pa != nil && pa.Allocs[e.Key] != nil && pa.Allocs[e.Key].ReleaseKey != "" {
			continue
		}
		ph, real := s.shim.Allocs[e.Key], s.shim.Allocs[app.Allocs[e.Key].ReleaseKey]
		leaf := s.appQueue(e.App)
		if ph == nil || real == nil || leaf == "" {
			continue
		}
		extra := Res{}
		for t, v := range real.Res {
			if v > ph.Res[t] {
				extra[t] = v - ph.Res[t]
			}
		}
		if len(extra) == 0 {
			continue
		}
		s.probe("swap_with_extra_checked")
		for _, qp := range ancestors(leaf) {
			pq := s.pre.Queues[qp]
			if pq == nil || qp == "root" {
				continue
			}
			var max Res
			if spec := s.conf.Find(qp); spec != nil && pq.Managed {
				if len(spec.Max) == 0 || spec.Max.IsZero() {
					continue
				}
				max = spec.Max
			} else if pq.HasMax {
				max = pq.Max
			} else {
				continue
			}
			usage := s.queueUsage(qp).Add(extra)
			for t := range extra {
				if mv, ok := max[t]; ok && usage[t] > mv {
					s.violate("C02", "above-max", "swap", "scheduler replaces placeholder %s %s by %s %s for application %s in %s: usage of queue %s becomes %s, its maximum is %s", ph.Key, ph.Res, real.Key, real.Res, e.App, leaf, qp, usage, max)
					break
				}
			}
		}
	}
	for _, e := range evs {
		if e.Kind != "new" {
			continue
		}
		m := s.shim.Allocs[e.Key]
		if m == nil {
			continue
		}
		leaf := s.appQueue(e.App)
		if leaf == "" {
			continue
		}
		for _, qp := range ancestors(leaf) {
			pq := s.pre.Queues[qp]
			if pq == nil {
				continue
			}
			var max Res
			if qp == "root" {
				// the root maximum is the sum of the registered node capacities, a missing type is zero
				max = Res{}
				for _, id := range s.shim.liveNodeIDs() {
					max.AddTo(s.shim.Nodes[id].Cap)
				}
				for t := range m.Res {
					if _, ok := max[t]; !ok {
						max[t] = 0
					}
				}
			} else if spec := s.conf.Find(qp); spec != nil && pq.Managed {
				// a configured queue: the maximum the active configuration gives it (one without any positive
				// quantity is no maximum), not what the queue object happens to hold
				if len(spec.Max) == 0 || spec.Max.IsZero() {
					continue
				}
				max = spec.Max
				s.probe("queue_max_from_configuration")
			} else {
				// a dynamic queue: template or application tags set its maximum, the queue object is the only record
				if !pq.HasMax {
					continue
				}
				max = pq.Max
			}
			usage := s.queueUsage(qp)
			s.probe("queue_max_checked")
			for t, mv := range max {
				if m.Res[t] <= 0 {
					continue
				}
				if usage[t] == mv {
					s.probe("queue_at_max")
				}
				if usage[t] > mv {
					s.violate("C02", "above-max", "", "scheduler bound %s %s for application %s in %s: usage of queue %s becomes %s, its maximum is %s", e.Key, m.Res, e.App, leaf, qp, usage, max)
					break
				}
			}
		}
	}
}
