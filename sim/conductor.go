package sim

// The conductor: owns every scheduling decision between managed goroutines.
//
// Discipline for this file (it also has to work in a -race build, where the hand-over between
// goroutines must stay invisible to ThreadSanitizer, see DESIGN.md 3.2):
//   - every function is //go:norace
//   - no Go maps, no append on state that more than one goroutine touches, no closures,
//     no calls into instrumented std packages on shared state
//   - a record is written by its owner while it runs and by the conductor only while the owner
//     is parked; the lock table is written only by the baton holder or the conductor

import (
	"fmt"
	"os"
	"runtime"
	"sync"
	"sync/atomic"
	"testing/synctest"
	"time"
	"unsafe"

	"github.com/petermattis/goid"
)

const (
	gNew = iota
	gRunning
	gParked
	gDone
)

const (
	reqNone    = iota
	reqStart   // new goroutine, before any user code
	reqLock    // write lock
	reqRLock   // read lock
	reqResume  // needs the baton to continue (unlock by a non-holder of the baton, callback entry, ...)
	reqDriver  // the driver's settle barrier: lowest priority under RTC
	reqAdvance // the driver asks for fake time to pass
)

const maxHeld = 64
const goidTable = 1 << 20
const lockTable = 1 << 17

type lrec struct {
	ptr     unsafe.Pointer
	id      int
	writer  *grec
	readers int
	waitW   int // parked write requests (maintained by the conductor)
}

type grec struct {
	name     string
	site     uintptr
	goid     int64
	parent   *grec
	children []*grec
	nspawn   int
	state    int
	req      int
	reqPtr   unsafe.Pointer
	reqLrec  *lrec
	reqTag   string
	advance  time.Duration
	quantum  time.Duration
	stamp    uint64
	granted  bool
	mu       sync.Mutex
	cond     *sync.Cond
	held     [maxHeld]*lrec
	heldW    [maxHeld]bool
	nheld    int
	rng      uint64
	harness  bool // goroutine created by the harness (driver, ops, shim reactions)
	prio     int  // PCT priority
	yields   uint64
	isDriver bool
}

type decision struct {
	Seq    uint64 `json:"seq"`
	N      int    `json:"n"`      // size of the enabled set
	Pick   int    `json:"pick"`   // index chosen
	Who    string `json:"who"`    // name of the goroutine granted
	Req    int    `json:"req"`    // its request kind
	NowMs  int64  `json:"now_ms"` // fake clock
	SetSig uint64 `json:"sig"`    // hash of the enabled set
}

type conductorT struct {
	root     *grec
	baton    *grec
	byGoid   [goidTable]*grec
	locks    [lockTable]lrec
	nlocks   int
	stampSeq uint64
	seq      uint64

	policy      int     // polRTC, polRND, polPCT
	preemptP    float64 // RND
	pctPoints   [8]uint64
	pctN        int
	rngChoice   uint64
	rngPreempt  uint64
	mapSalt     uint64
	seed        uint64
	permEnabled bool

	decisions   uint64
	fastPasses  uint64
	parks       uint64
	maxParked   int
	trace       []decision
	traceCap    int
	yieldCount  uint64
	deadlock    string
	stuck       string
	done        bool
	driverDone  bool
	progress    atomic.Uint64 // for the real-time watchdog only
	startReal   time.Time
	quiescentCB func() // called (on the conductor goroutine) whenever nothing is enabled but the driver
	sigHash     uint64 // running hash of all decisions: the schedule signature
	lockEdges   [256]lockEdge
	nLockEdges  int
	unmanaged   int
}

type lockEdge struct {
	from, to uintptr // pcs of acquisition sites: held -> requested
	n        int
}

const (
	polRTC = iota
	polRND
	polPCT
)

var cd *conductorT

//go:norace
func splitmix(x *uint64) uint64 {
	*x += 0x9e3779b97f4a7c15
	z := *x
	z = (z ^ (z >> 30)) * 0xbf58476d1ce4e5b9
	z = (z ^ (z >> 27)) * 0x94d049bb133111eb
	return z ^ (z >> 31)
}

//go:norace
func hashStr(h uint64, s string) uint64 {
	for i := 0; i < len(s); i++ {
		h ^= uint64(s[i])
		h *= 0x100000001b3
	}
	return h
}

//go:norace
func newConductor(seed uint64) *conductorT {
	c := &conductorT{seed: seed}
	s := seed
	c.rngChoice = splitmix(&s)
	c.rngPreempt = splitmix(&s)
	c.mapSalt = splitmix(&s)
	c.traceCap = 200000
	c.trace = make([]decision, 0, 4096)
	c.startReal = time.Now()
	r := &grec{name: "r", state: gRunning, goid: goid.Get()}
	r.cond = sync.NewCond(&r.mu)
	c.root = r
	c.byGoid[r.goid&(goidTable-1)] = r
	c.baton = r
	return c
}

//go:norace
func (c *conductorT) me() *grec {
	id := goid.Get()
	g := c.byGoid[id&(goidTable-1)]
	if g == nil || g.goid != id {
		return nil
	}
	return g
}

//go:norace
func (c *conductorT) newChild(parent *grec, harness bool) *grec {
	g := &grec{parent: parent, harness: harness, state: gNew}
	g.name = parent.name + "." + itoa(parent.nspawn)
	parent.nspawn++
	g.cond = sync.NewCond(&g.mu)
	h := hashStr(c.mapSalt^0xcbf29ce484222325, g.name)
	g.rng = h
	g.prio = int(splitmixVal(h^c.seed) % 1000)
	parent.children = append(parent.children, g)
	return g
}

//go:norace
func splitmixVal(x uint64) uint64 {
	return splitmix(&x)
}

//go:norace
func itoa(n int) string {
	if n == 0 {
		return "0"
	}
	var b [20]byte
	i := len(b)
	for n > 0 {
		i--
		b[i] = byte('0' + n%10)
		n /= 10
	}
	return string(b[i:])
}

// ---- hooks installed into simseam --------------------------------------------------------

//go:norace
func hookGo(fn func()) {
	c := cd
	parent := c.me()
	if parent == nil {
		c.unmanagedFatal("go statement")
		return
	}
	child := c.newChild(parent, false)
	var pcs [1]uintptr
	runtime.Callers(3, pcs[:])
	child.site = pcs[0]
	go runChild(c, child, fn)
}

//go:norace
func runChild(c *conductorT, g *grec, fn func()) {
	g.goid = goid.Get()
	slot := g.goid & (goidTable - 1)
	if c.byGoid[slot] != nil && c.byGoid[slot].state != gDone {
		fatal2("goroutine id table collision")
	}
	c.byGoid[slot] = g
	g.req = reqStart
	c.park(g)
	defer finishChild(g)
	fn()
}

//go:norace
func finishChild(g *grec) {
	g.state = gDone
}

//go:norace
func hookAfterFunc(d time.Duration, fn func()) *time.Timer {
	c := cd
	parent := c.me()
	if parent == nil {
		c.unmanagedFatal("time.AfterFunc")
		return time.AfterFunc(d, fn)
	}
	var pcs [1]uintptr
	runtime.Callers(3, pcs[:])
	site := pcs[0]
	// the record is made now, by the parent, so that its name does not depend on when the timer fires
	child := c.newChild(parent, false)
	child.site = site
	tm := &timerFn{c: c, g: child, fn: fn}
	return time.AfterFunc(d, tm.run)
}

type timerFn struct {
	c     *conductorT
	g     *grec
	fn    func()
	fired int
}

//go:norace
func (t *timerFn) run() {
	g := t.g
	if t.fired > 0 {
		// a timer that was Reset: same parent-assigned identity, new incarnation
		ng := &grec{parent: g.parent, state: gNew, name: g.name + "#" + itoa(t.fired), site: g.site, rng: g.rng + uint64(t.fired), prio: g.prio}
		ng.cond = sync.NewCond(&ng.mu)
		g.children = append(g.children, ng) // owned by the timer goroutine chain; conductor reads only when all are blocked
		g = ng
	}
	t.fired++
	runChild(t.c, g, t.fn)
}

//go:norace
func hookLock(m unsafe.Pointer, kind int) {
	c := cd
	g := c.me()
	if g == nil {
		c.unmanagedFatal("lock")
		return
	}
	g.yields++
	switch kind {
	case 0, 1: // Lock, RLock
		write := kind == 0
		if g == c.baton {
			l := c.lockRec(m)
			if c.grantable(l, write, g, 0) && !c.shouldPreempt(g) {
				c.acquire(l, write, g)
				c.fastPasses++
				return
			}
		}
		if write {
			g.req = reqLock
		} else {
			g.req = reqRLock
		}
		g.reqPtr = m
		g.reqLrec = nil
		c.park(g)
		// granted: the conductor has updated the lock model on our behalf
	default: // Unlock, RUnlock
		if g != c.baton {
			g.req = reqResume
			g.reqTag = "unlock"
			c.park(g)
		}
		l := c.lockRec(m)
		c.release(l, kind == 2, g)
	}
}

// yield is the harness-side yield point (callback entry, driver barriers).
//
//go:norace
func (c *conductorT) yield(tag string) {
	g := c.me()
	if g == nil {
		c.unmanagedFatal("yield " + tag)
		return
	}
	g.yields++
	if g == c.baton && !c.shouldPreempt(g) {
		return
	}
	g.req = reqResume
	g.reqTag = tag
	c.park(g)
}

//go:norace
func (c *conductorT) unmanagedFatal(what string) {
	c.unmanaged++
	buf := make([]byte, 16384)
	n := runtime.Stack(buf, false)
	fmt.Fprintf(os.Stderr, "HARNESS: unmanaged goroutine reached a hook (%s)\n%s\n", what, buf[:n])
	os.Exit(2)
}

//go:norace
func fatal2(msg string) {
	fmt.Fprintf(os.Stderr, "HARNESS: %s\n", msg)
	os.Exit(2)
}

//go:norace
func (c *conductorT) park(g *grec) {
	g.stamp = 0
	g.state = gParked
	g.mu.Lock()
	for !g.granted {
		g.cond.Wait()
	}
	g.granted = false
	g.mu.Unlock()
}

//go:norace
func (c *conductorT) lockRec(m unsafe.Pointer) *lrec {
	h := (uintptr(m) >> 3) * 0x9e3779b1
	i := int(h & (lockTable - 1))
	for {
		l := &c.locks[i]
		if l.ptr == m {
			return l
		}
		if l.ptr == nil {
			if c.nlocks > lockTable/2 {
				fatal2("lock table full")
			}
			l.ptr = m
			l.id = c.nlocks
			c.nlocks++
			return l
		}
		i = (i + 1) & (lockTable - 1)
	}
}

// grantable implements the lock model; stamp is the requester's park stamp (0 on the fast path).
//
//go:norace
func (c *conductorT) grantable(l *lrec, write bool, g *grec, stamp uint64) bool {
	if write {
		return l.writer == nil && l.readers == 0
	}
	if l.writer != nil {
		return false
	}
	if l.waitW > 0 {
		// Go's RWMutex prefers writers: a reader arriving after a waiting writer blocks.
		if stamp == 0 {
			return false
		}
		return !c.earlierWriter(c.root, l, stamp)
	}
	return true
}

//go:norace
func (c *conductorT) earlierWriter(g *grec, l *lrec, stamp uint64) bool {
	if g.state == gParked && g.req == reqLock && g.reqLrec == l && g.stamp != 0 && g.stamp < stamp {
		return true
	}
	for i := 0; i < len(g.children); i++ {
		if c.earlierWriter(g.children[i], l, stamp) {
			return true
		}
	}
	return false
}

//go:norace
func (c *conductorT) acquire(l *lrec, write bool, g *grec) {
	if write {
		l.writer = g
	} else {
		l.readers++
	}
	if g.nheld >= maxHeld {
		fatal2("goroutine holds too many locks: " + g.name)
	}
	g.held[g.nheld] = l
	g.heldW[g.nheld] = write
	g.nheld++
}

//go:norace
func (c *conductorT) release(l *lrec, write bool, g *grec) {
	for i := g.nheld - 1; i >= 0; i-- {
		if g.held[i] == l && g.heldW[i] == write {
			copy(g.held[i:g.nheld], g.held[i+1:g.nheld])
			copy(g.heldW[i:g.nheld], g.heldW[i+1:g.nheld])
			g.nheld--
			if write {
				l.writer = nil
			} else {
				l.readers--
			}
			return
		}
	}
	// Unlock of a lock this goroutine does not hold in the model. Go allows unlocking from
	// another goroutine; none of the modelled code does it, so treat it as model trouble.
	if write {
		if l.writer != nil {
			h := l.writer
			for i := h.nheld - 1; i >= 0; i-- {
				if h.held[i] == l && h.heldW[i] {
					copy(h.held[i:h.nheld], h.held[i+1:h.nheld])
					copy(h.heldW[i:h.nheld], h.heldW[i+1:h.nheld])
					h.nheld--
					break
				}
			}
			l.writer = nil
			return
		}
	} else if l.readers > 0 {
		// read lock released by another goroutine than the one that took it (fsm does
		// RUnlock/RLock pairs inside one goroutine only; keep the count right anyway)
		l.readers--
		return
	}
	fatal2("unlock of a lock that is not held in the model by " + g.name)
}

//go:norace
func (c *conductorT) shouldPreempt(g *grec) bool {
	switch c.policy {
	case polRND:
		r := splitmix(&c.rngPreempt)
		return float64(r>>11)/float64(1<<53) < c.preemptP
	case polPCT:
		c.yieldCount++
		for i := 0; i < c.pctN; i++ {
			if c.pctPoints[i] == c.yieldCount {
				g.prio = -int(c.yieldCount) // drop below everyone else
				return true
			}
		}
		return false
	}
	return false
}

// ---- the conductor loop (runs on the bubble's root goroutine) ----------------------------

const maxCand = 512

type candSet struct {
	g [maxCand]*grec
	n int
}

//go:norace
func (c *conductorT) collect(g *grec, parked *candSet, fresh *candSet) {
	if g.state == gParked {
		if parked.n < maxCand {
			parked.g[parked.n] = g
			parked.n++
		}
		if g.stamp == 0 && fresh.n < maxCand {
			fresh.g[fresh.n] = g
			fresh.n++
		}
	}
	for i := 0; i < len(g.children); i++ {
		c.collect(g.children[i], parked, fresh)
	}
}

//go:norace
func sortByName(s *candSet) {
	for i := 1; i < s.n; i++ {
		x := s.g[i]
		j := i - 1
		for j >= 0 && s.g[j].name > x.name {
			s.g[j+1] = s.g[j]
			j--
		}
		s.g[j+1] = x
	}
}

// spawn starts fn as a harness-managed goroutine (driver, operation, shim reaction).
//
//go:norace
func (c *conductorT) spawn(fn func(), driver bool) *grec {
	parent := c.me()
	if parent == nil {
		c.unmanagedFatal("spawn")
	}
	child := c.newChild(parent, true)
	child.isDriver = driver
	go runChild(c, child, fn)
	return child
}

// settle is the driver's barrier: under RTC it returns when nothing else is enabled.
//
//go:norace
func (c *conductorT) settle() {
	g := c.me()
	g.req = reqDriver
	c.park(g)
}

// advanceClock lets d of fake time pass in steps of q, running whatever wakes up in between.
//
//go:norace
func (c *conductorT) advanceClock(d, q time.Duration) {
	g := c.me()
	g.req = reqAdvance
	g.advance = d
	g.quantum = q
	c.park(g)
}

//go:norace
func (c *conductorT) grant(g *grec) {
	switch g.req {
	case reqLock:
		g.reqLrec.waitW--
		c.acquire(g.reqLrec, true, g)
	case reqRLock:
		c.acquire(g.reqLrec, false, g)
	}
	g.state = gRunning
	g.req = reqNone
	c.baton = g
	g.granted = true
	g.cond.Signal()
}

// loop runs until the driver goroutine has finished and nothing is enabled any more.
// Returns "" or a description of a manifest deadlock.
//
//go:norace
func (c *conductorT) loop(driver *grec) {
	var parked, fresh, enabled candSet
	for {
		synctest.Wait()
		c.progress.Add(1)
		parked.n, fresh.n, enabled.n = 0, 0, 0
		c.collect(c.root, &parked, &fresh)
		if parked.n > c.maxParked {
			c.maxParked = parked.n
		}
		// stamp the new arrivals in name order: "parked earlier" is well defined and deterministic
		sortByName(&fresh)
		for i := 0; i < fresh.n; i++ {
			g := fresh.g[i]
			c.stampSeq++
			g.stamp = c.stampSeq
			c.parks++
			if g.req == reqLock || g.req == reqRLock {
				g.reqLrec = c.lockRec(g.reqPtr)
				if g.req == reqLock {
					g.reqLrec.waitW++
				}
			}
		}
		sortByName(&parked)
		var drv *grec
		lockWaiters := 0
		for i := 0; i < parked.n; i++ {
			g := parked.g[i]
			ok := false
			switch g.req {
			case reqStart, reqResume:
				ok = true
			case reqLock:
				ok = c.grantable(g.reqLrec, true, g, g.stamp)
				lockWaiters++
			case reqRLock:
				ok = c.grantable(g.reqLrec, false, g, g.stamp)
				lockWaiters++
			case reqDriver, reqAdvance:
				drv = g
			}
			if ok {
				enabled.g[enabled.n] = g
				enabled.n++
			}
		}
		// the driver: lowest priority under RTC, an ordinary candidate otherwise; a pending
		// clock advance is only ever served when nothing else can run
		if drv != nil && drv.req == reqDriver && (enabled.n == 0 || (c.policy != polRTC && !drv.isDriver)) {
			enabled.g[enabled.n] = drv
			enabled.n++
		}
		if enabled.n == 0 {
			if drv != nil && drv.req == reqAdvance {
				q := drv.quantum
				if q <= 0 || q > drv.advance {
					q = drv.advance
				}
				if q > 0 {
					time.Sleep(q)
					drv.advance -= q
				}
				if drv.advance <= 0 {
					drv.req = reqDriver
				}
				continue
			}
			if lockWaiters > 0 {
				c.deadlock = c.describeDeadlock(&parked)
				if os.Getenv("VERIF_STACKS") != "" {
					// debugging aid for replays: where everybody is
					buf := make([]byte, 1<<20)
					n := runtime.Stack(buf, true)
					os.Stderr.Write(buf[:n])
				}
			}
			if driver.state == gDone || c.deadlock != "" {
				return
			}
			// nothing enabled, driver neither parked nor done: it is blocked on something that
			// will never come (a reply channel nobody serves)
			c.stuck = "driver blocked with nothing enabled"
			return
		}
		pick := c.choose(&enabled)
		g := enabled.g[pick]
		c.seq++
		c.decisions++
		sig := uint64(enabled.n)
		for i := 0; i < enabled.n; i++ {
			sig = hashStr(sig*31, enabled.g[i].name)
		}
		c.sigHash = (c.sigHash ^ sig ^ uint64(pick)) * 0x100000001b3
		c.sigHash = hashStr(c.sigHash, g.name)
		if len(c.trace) < c.traceCap {
			c.trace = append(c.trace, decision{Seq: c.seq, N: enabled.n, Pick: pick, Who: g.name, Req: g.req, NowMs: time.Now().UnixMilli(), SetSig: sig})
		}
		c.grant(g)
	}
}

//go:norace
func (c *conductorT) choose(e *candSet) int {
	if e.n == 1 {
		return 0
	}
	switch c.policy {
	case polPCT:
		best := 0
		for i := 1; i < e.n; i++ {
			if e.g[i].prio > e.g[best].prio {
				best = i
			}
		}
		return best
	default:
		r := splitmix(&c.rngChoice)
		return int(r % uint64(e.n))
	}
}

//go:norace
func (c *conductorT) describeDeadlock(parked *candSet) string {
	s := "manifest deadlock: "
	for i := 0; i < parked.n; i++ {
		g := parked.g[i]
		if g.req != reqLock && g.req != reqRLock {
			continue
		}
		s += g.name + "(" + siteName(g.site) + ") waits "
		if g.req == reqLock {
			s += "W"
		} else {
			s += "R"
		}
		s += " lock#" + itoa(g.reqLrec.id)
		if g.reqLrec.writer != nil {
			s += " held W by " + g.reqLrec.writer.name
		} else {
			s += " readers=" + itoa(g.reqLrec.readers) + " waitW=" + itoa(g.reqLrec.waitW)
		}
		s += "; "
	}
	return s
}

func siteName(pc uintptr) string {
	if pc == 0 {
		return "?"
	}
	f := runtime.FuncForPC(pc)
	if f == nil {
		return "?"
	}
	return f.Name()
}

// mapPerm is installed as simseam.PermHook: a permutation drawn from the calling goroutine's own
// stream, so that it cannot be perturbed by what other goroutines do.
//
//go:norace
func hookPerm(n int) []int {
	c := cd
	if !c.permEnabled {
		return nil
	}
	g := c.me()
	if g == nil {
		return nil
	}
	p := make([]int, n)
	for i := 0; i < n; i++ {
		p[i] = i
	}
	for i := n - 1; i > 0; i-- {
		j := int(splitmix(&g.rng) % uint64(i+1))
		p[i], p[j] = p[j], p[i]
	}
	return p
}
