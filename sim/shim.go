package sim

import (
	"fmt"
	"sort"
	"sync"
	"time"

	"github.com/apache/yunikorn-scheduler-interface/lib/go/si"
)

// The simulated shim: the only peer of the core. Its knowledge base (M_shim) is updated only by
// what the shim itself sent and by what the core told it through the ResourceManagerCallback.

const (
	stPending   = "pending"   // ask submitted, not bound
	stBound     = "bound"     // bound to a node
	stReleasing = "releasing" // core announced a release that the shim has to confirm
	stGone      = "gone"
)

type MAlloc struct {
	Key                 string
	App                 string
	Res                 Res
	Priority            int32
	Placeholder         bool
	TaskGroup           string
	RequiredNode        string
	PreemptSelf         bool
	PreemptOther        bool
	Originator          bool
	Foreign             bool
	Status              string
	Node                string
	RMPlaced            bool   // bound by the shim itself (recovery / externally placed)
	RelType             string // termination type of the announced, unconfirmed release
	Announced           int    // how often the core announced the pending release
	SubmitStep          int
	BoundStep           int
	EverBound           bool
	RejectReason        string
	ReleaseSent         bool // the shim sent a release for it (in flight or processed)
	NoEcho              bool // released by the shim with TIMEOUT / PREEMPTED_BY_SCHEDULER: the core sends nothing back
	ReleasedDuringSwap  bool // the shim released the ask while the core had it linked to a placeholder as its replacement
	WasBound            bool // was bound when the shim sent its release
	PreemptAnnounced    bool
	TriggeredPreemption bool
	SubmitMs            int64
}

type MApp struct {
	ID             string
	Queue          string // requested queue name
	User           string
	Groups         []string
	Tags           map[string]string
	Gang           bool
	GangStyle      string
	TimeoutMs      int64
	TaskGroups     map[string]int // name -> placeholder count
	PhAsk          Res
	Forced         bool
	Status         string // submitted, accepted, rejected, removed
	Answers        int    // accepted/rejected answers received
	States         []string
	RemoveSent     bool
	SubmitStep     int
	RejectMsg      string
	UgiNil         bool
	PlacedQueue    string // filled by observation (DAO), not by the shim protocol
	CompletingAtMs int64  // fake time (ms since start) of the last reported Completing
	SubmitAtMs     int64
	FirstPhAtMs    int64 // fake time of the first placeholder allocation
	Admitted       bool  // has had an allocation and has not been without allocations and asks since
}

type MNode struct {
	ID          string
	Cap         Res
	CapHist     []Res // capacities sent since the last quiescent point (in flight)
	Schedulable bool
	SchedHist   []bool
	Status      string // submitted, accepted, rejected, removed
	Answers     int
	RemoveSent  bool
	Attrs       map[string]string
}

type Obligation struct {
	Key   string
	App   string
	Type  si.TerminationType
	Step  int
	Tries int
}

// SIEvent is one item of the core->shim stream, kept for the per-step oracles and for samples.
type SIEvent struct {
	Step int    `json:"step"`
	Kind string `json:"kind"` // new, released, rejectedAlloc, appAccepted, appRejected, appUpdated, nodeAccepted, nodeRejected
	Key  string `json:"key,omitempty"`
	App  string `json:"app,omitempty"`
	Node string `json:"node,omitempty"`
	Type string `json:"type,omitempty"`
	Res  Res    `json:"res,omitempty"`
	Msg  string `json:"msg,omitempty"`
}

type PredCall struct {
	Step     int
	Key      string
	Node     string
	Allocate bool
	OK       bool
}

type Shim struct {
	mu   sync.Mutex // never contended (only the baton holder runs harness code); orders accesses for the race detector
	c    *conductorT
	rmID string

	Allocs  map[string]*MAlloc
	Apps    map[string]*MApp
	Nodes   map[string]*MNode
	Foreign map[string]*MAlloc
	// RejectNoEffect: keys for which the next RejectedAllocation answers an invalid update, not the ask itself
	RejectNoEffect map[string]bool

	Owed []Obligation

	Step       int       // current driver step (set by the driver)
	StepEvents []SIEvent // events of the current step
	AllEvents  int
	Sample     []SIEvent
	Preds      []PredCall
	sched      bool // the current step is a scheduling cycle

	// fault knobs
	PredFlapP   float64
	SideEffectP float64
	sideEffect  func(node, key string)
	CBErrorP    float64
	rng         *Rng
	faults      map[string]int
	violations  []Violation
	epoch       int // bumped on core restart: callbacks of an older core are dropped
	dropped     int
	minimal     bool // race build: record as little as possible
	schedStates int
	lastPredOK  map[string]bool
	Tainted     map[string]string // application -> known in-flight swap trigger it went through
	start       time.Time
	badIDs      map[string]string // ids used by malformed requests: answers about them are expected
	onCallback  func()            // called at the entry of every core->shim callback, before the message is taken in (crash point)
}

func (s *Shim) taint(app, kind string) {
	if s.Tainted == nil {
		s.Tainted = map[string]string{}
	}
	if _, ok := s.Tainted[app]; !ok {
		s.Tainted[app] = kind
	}
}

type Violation struct {
	Prop   string `json:"prop"`
	Clause string `json:"clause"`
	Msg    string `json:"msg"`
	Step   int    `json:"step"`
	Sig    string `json:"sig"`
}

func NewShim(c *conductorT, seed uint64) *Shim {
	return &Shim{c: c, rmID: "rm:1", Allocs: map[string]*MAlloc{}, Apps: map[string]*MApp{}, Nodes: map[string]*MNode{},
		badIDs: map[string]string{}, Foreign: map[string]*MAlloc{}, RejectNoEffect: map[string]bool{}, rng: NewRng(seed, "shim"), faults: map[string]int{}, lastPredOK: map[string]bool{}}
}

func (s *Shim) violate(prop, clause, sig, format string, args ...any) {
	v := Violation{Prop: prop, Clause: clause, Msg: fmt.Sprintf(format, args...), Step: s.Step, Sig: prop + ":" + clause + ":" + sig}
	for _, a := range reAppID.FindAllString(v.Msg, -1) {
		if k, ok := s.Tainted[a]; ok {
			v.Sig += "@" + k
			break
		}
	}
	s.violations = append(s.violations, v)
}

func (s *Shim) ev(e SIEvent) {
	e.Step = s.Step
	s.StepEvents = append(s.StepEvents, e)
	s.AllEvents++
	if len(s.Sample) < 60 {
		s.Sample = append(s.Sample, e)
	}
}

// ---- ResourceManagerCallback ---------------------------------------------------------------

type shimCB struct {
	s     *Shim
	epoch int
}

func (cb *shimCB) UpdateAllocation(r *si.AllocationResponse) error {
	s := cb.s
	s.c.yield("cbAlloc")
	s.mu.Lock()
	defer s.mu.Unlock()
	if cb.epoch != s.epoch {
		s.dropped++
		return nil
	}
	if s.onCallback != nil {
		s.onCallback()
	}
	for _, a := range r.New {
		s.onNew(a)
	}
	for _, rel := range r.Released {
		s.onReleased(rel)
	}
	for _, rej := range r.RejectedAllocations {
		s.onRejectedAlloc(rej)
	}
	if s.CBErrorP > 0 && s.rng.Bool(s.CBErrorP) {
		s.faults["callback_error"]++
		return fmt.Errorf("injected callback error")
	}
	return nil
}

func (cb *shimCB) UpdateApplication(r *si.ApplicationResponse) error {
	s := cb.s
	s.c.yield("cbApp")
	s.mu.Lock()
	defer s.mu.Unlock()
	if cb.epoch != s.epoch {
		s.dropped++
		return nil
	}
	for _, a := range r.Accepted {
		s.ev(SIEvent{Kind: "appAccepted", App: a.ApplicationID})
		app := s.Apps[a.ApplicationID]
		if app == nil {
			s.violate("C04", "answer-unknown-app", "accepted", "accepted answer for application %s the shim never submitted", a.ApplicationID)
			continue
		}
		app.Answers++
		if app.Answers > 1 && app.Status != "removed" {
			s.violate("C04", "app-answer-once", "accepted", "application %s answered %d times", a.ApplicationID, app.Answers)
		}
		if app.Status == "submitted" {
			app.Status = "accepted"
		}
	}
	for _, a := range r.Rejected {
		s.ev(SIEvent{Kind: "appRejected", App: a.ApplicationID, Msg: a.Reason})
		app := s.Apps[a.ApplicationID]
		if app == nil {
			// a rejection for an id the shim did send in a request the model classified as malformed
			continue
		}
		app.Answers++
		if app.Answers > 1 && app.Status != "removed" && !app.dupSubmitted() {
			s.violate("C04", "app-answer-once", "rejected", "application %s answered %d times", a.ApplicationID, app.Answers)
		}
		if app.Status == "submitted" {
			app.Status = "rejected"
			app.RejectMsg = a.Reason
		}
	}
	for _, u := range r.Updated {
		s.ev(SIEvent{Kind: "appUpdated", App: u.ApplicationID, Type: u.State, Msg: u.Message})
		if app := s.Apps[u.ApplicationID]; app != nil {
			app.States = append(app.States, u.State)
			if u.State == "Completing" {
				app.CompletingAtMs = s.nowMs()
			}
		}
	}
	return nil
}

func (a *MApp) dupSubmitted() bool { return a.Tags["sim/dup"] != "" }

func (cb *shimCB) UpdateNode(r *si.NodeResponse) error {
	s := cb.s
	s.c.yield("cbNode")
	s.mu.Lock()
	defer s.mu.Unlock()
	if cb.epoch != s.epoch {
		s.dropped++
		return nil
	}
	for _, a := range r.Accepted {
		s.ev(SIEvent{Kind: "nodeAccepted", Node: a.NodeID})
		n := s.Nodes[a.NodeID]
		if n == nil {
			s.violate("C04", "answer-unknown-node", "accepted", "accepted answer for node %s the shim never registered", a.NodeID)
			continue
		}
		n.Answers++
		if n.Status == "submitted" {
			n.Status = "accepted"
		}
	}
	for _, a := range r.Rejected {
		s.ev(SIEvent{Kind: "nodeRejected", Node: a.NodeID, Msg: a.Reason})
		if n := s.Nodes[a.NodeID]; n != nil {
			n.Answers++
			if n.Status == "submitted" {
				n.Status = "rejected"
			}
		}
	}
	return nil
}

func (cb *shimCB) Predicates(args *si.PredicatesArgs) error {
	s := cb.s
	s.c.yield("pred")
	if s.minimal {
		return nil
	}
	s.mu.Lock()
	ok := true
	if s.PredFlapP > 0 {
		p := s.PredFlapP
		// directed: the node holds a placeholder of the same application and task group as this real ask -
		// refusing it there sends the replacement to another node
		if m := s.Allocs[args.AllocationKey]; m != nil && !m.Placeholder && m.TaskGroup != "" {
			for _, o := range s.Allocs {
				if o.Placeholder && o.App == m.App && o.TaskGroup == m.TaskGroup && o.Node == args.NodeID && o.Status == stBound {
					p = 0.45
					break
				}
			}
		}
		if s.rng.Bool(p) {
			ok = false
			s.faults["predicate_flap"]++
		}
	}
	sp := s.SideEffectP
	if m := s.Allocs[args.AllocationKey]; m != nil && !m.Placeholder && m.TaskGroup != "" && sp > 0 {
		sp = 0.3 // a real gang ask being placed: the replacement paths re-check least
	}
	side := ok && args.Allocate && sp > 0 && s.sideEffect != nil && s.rng.Bool(sp)
	s.mu.Unlock()
	if side {
		// the world changes while the predicate is being evaluated (no scheduler lock is held here): the shim
		// reports it and the core has processed it before the predicate returns
		s.sideEffect(args.NodeID, args.AllocationKey)
	}
	s.mu.Lock()
	s.Preds = append(s.Preds, PredCall{Step: s.Step, Key: args.AllocationKey, Node: args.NodeID, Allocate: args.Allocate, OK: ok})
	s.mu.Unlock()
	if !ok {
		return fmt.Errorf("injected predicate failure")
	}
	return nil
}

func (cb *shimCB) PreemptionPredicates(args *si.PreemptionPredicatesArgs) *si.PreemptionPredicatesResponse {
	s := cb.s
	s.c.yield("ppred")
	// the ask fits once the victims up to StartIndex are gone: the simulated shim has no extra
	// constraints, so the first candidate index is always sufficient
	return &si.PreemptionPredicatesResponse{Success: true, Index: args.StartIndex}
}

func (cb *shimCB) SendEvent(events []*si.EventRecord) {}

func (cb *shimCB) UpdateContainerSchedulingState(request *si.UpdateContainerSchedulingStateRequest) {
}

// ---- protocol automaton (C04) -------------------------------------------------------------------

func (s *Shim) onNew(a *si.Allocation) {
	s.ev(SIEvent{Kind: "new", Key: a.AllocationKey, App: a.ApplicationID, Node: a.NodeID, Res: ResFromSI(a.ResourcePerAlloc)})
	m := s.Allocs[a.AllocationKey]
	if m == nil {
		s.violate("C04", "new-unknown-ask", "", "new allocation %s (app %s) for an ask the shim never submitted", a.AllocationKey, a.ApplicationID)
		return
	}
	if m.App != a.ApplicationID {
		s.violate("C04", "new-wrong-app", "", "new allocation %s announced for app %s, submitted for %s", a.AllocationKey, a.ApplicationID, m.App)
	}
	if m.RMPlaced && m.Status == stBound && !m.EverBound {
		// echo of an allocation the shim placed itself
		m.EverBound = true
		if a.NodeID != m.Node {
			s.violate("C04", "echo-wrong-node", "", "RM placed %s on %s, core echoes node %s", m.Key, m.Node, a.NodeID)
		}
		return
	}
	switch m.Status {
	case stPending:
	case stBound, stReleasing:
		s.violate("C04", "bound-twice", "", "allocation key %s bound again (node %s) while still bound on %s", m.Key, a.NodeID, m.Node)
		return
	case stGone:
		if m.ReleaseSent {
			// the shim's release may still be in the core's inbound queue: legal only if not yet processed,
			// which the driver decides at the quiescent point (releaseInFlight cleared there)
			if !s.releaseInFlight(m.Key) {
				detail := ""
				if m.ReleasedDuringSwap {
					detail = "ask-released-during-swap"
				}
				s.violate("C04", "new-after-release", detail, "allocation %s bound after the shim released the ask and the core processed that", m.Key)
			}
		} else {
			s.violate("C04", "new-not-outstanding", "", "allocation %s bound but the ask is not outstanding (status gone: %s)", m.Key, m.RejectReason)
		}
		return
	}
	app := s.Apps[m.App]
	if app == nil || (app.Status != "accepted" && !(app.Status == "removed" && s.appRemovalInFlight(m.App))) {
		st := "unknown"
		if app != nil {
			st = app.Status
		}
		s.violate("C04", "new-app-not-live", st, "allocation %s bound for application %s in shim state %s", m.Key, m.App, st)
	}
	n := s.Nodes[a.NodeID]
	if n == nil || (n.Status != "accepted" && !(n.Status == "removed" && s.nodeRemovalInFlight(a.NodeID))) {
		st := "unknown"
		if n != nil {
			st = n.Status
		}
		s.violate("C04", "new-node-not-live", st, "allocation %s bound on node %s in shim state %s", m.Key, a.NodeID, st)
	}
	if got := ResFromSI(a.ResourcePerAlloc); !got.Eq(m.Res) {
		s.violate("C04", "new-wrong-resource", "", "allocation %s announced with %s, ask was %s", m.Key, got, m.Res)
	}
	m.Status = stBound
	m.Node = a.NodeID
	m.EverBound = true
	m.BoundStep = s.Step
	if m.Placeholder && app != nil && app.FirstPhAtMs == 0 {
		app.FirstPhAtMs = s.nowMs()
	}
}

func (s *Shim) onReleased(r *si.AllocationRelease) {
	s.ev(SIEvent{Kind: "released", Key: r.AllocationKey, App: r.ApplicationID, Type: r.TerminationType.String(), Msg: r.Message})
	m := s.Allocs[r.AllocationKey]
	if m == nil {
		s.violate("C04", "release-unknown", r.TerminationType.String(), "release of %s (%s) which the shim never submitted", r.AllocationKey, r.TerminationType)
		return
	}
	switch r.TerminationType {
	case si.TerminationType_STOPPED_BY_RM:
		// echo of the shim's own release, or fallout of an application / node removal the shim asked for
		switch m.Status {
		case stGone:
			if s.confirmInFlight(m.Key) {
				// the core answers the shim's own message about this key (a confirmation it could no longer match
				// with a replacement is handled as an ordinary release by the RM, and echoed as one)
				s.faults["probe_confirmation_echoed_as_release"]++
			} else if m.NoEcho {
				s.violate("C04", "release-echo-of-confirmation", "", "STOPPED_BY_RM announced for %s after the shim released it with a confirmation type, which the core does not answer (%s)", m.Key, m.RejectReason)
			} else if !m.ReleaseSent && !s.appGone(m.App) && !s.nodeGone(m.Node) {
				s.violate("C04", "release-not-bound", "STOPPED_BY_RM", "release of %s which is neither bound nor outstanding", m.Key)
			}
		case stPending:
			// the statement allows a release that names an ask still outstanding (e.g. the ask was bound to a node that
			// was removed at that very moment and never announced): the ask stays outstanding for the shim
			s.faults["probe_release_of_pending_ask"]++
		default:
			// node removal or application removal releases what was bound; the shim did not ask
			// for this key itself, so something it did ask for must explain it
			if !m.ReleaseSent && !s.appRemoveSent(m.App) && !s.nodeRemoveSent(m.Node) {
				s.violate("C04", "release-unrequested", "STOPPED_BY_RM", "core released %s (status %s, node %s) as STOPPED_BY_RM without a shim request that explains it", m.Key, m.Status, m.Node)
			}
			s.dropObligation(m.Key)
			m.Status = stGone
			m.RejectReason = "released by core: " + r.Message
		}
	case si.TerminationType_TIMEOUT, si.TerminationType_PREEMPTED_BY_SCHEDULER, si.TerminationType_PLACEHOLDER_REPLACED:
		switch m.Status {
		case stBound, stPending:
			if m.Status == stPending && r.TerminationType != si.TerminationType_TIMEOUT {
				s.violate("C04", "release-not-bound", r.TerminationType.String(), "%s announced for %s which is not bound", r.TerminationType, m.Key)
			}
			m.WasBound = m.Status == stBound
			m.Status = stReleasing
			m.RelType = r.TerminationType.String()
			m.Announced = 1
			s.Owed = append(s.Owed, Obligation{Key: m.Key, App: m.App, Type: r.TerminationType, Step: s.Step})
		case stReleasing:
			// a repeat is allowed only until the shim has confirmed
			m.Announced++
			if m.RelType != r.TerminationType.String() {
				// a repeat with another termination type: the statement allows repeats until confirmed and says nothing about the type
				s.faults["probe_release_type_changed"]++
				if m.RelType == si.TerminationType_PLACEHOLDER_REPLACED.String() && r.TerminationType == si.TerminationType_TIMEOUT {
					// the placeholder timeout fired while a replacement was waiting for its confirmation
					s.taint(m.App, "swap-timeout")
				}
			}
		case stGone:
			if !s.releaseInFlight(m.Key) && !s.confirmInFlight(m.Key) {
				s.violate("C04", "release-after-gone", r.TerminationType.String(), "%s announced for %s which is gone from the shim's point of view (%s)", r.TerminationType, m.Key, m.RejectReason)
			}
		}
	default:
		s.violate("C04", "release-bad-type", r.TerminationType.String(), "core announced release of %s with termination type %s", m.Key, r.TerminationType)
	}
}

func (s *Shim) onRejectedAlloc(r *si.RejectedAllocation) {
	s.ev(SIEvent{Kind: "rejectedAlloc", Key: r.AllocationKey, App: r.ApplicationID, Msg: r.Reason})
	if s.RejectNoEffect[r.AllocationKey] {
		// the refusal of an invalid update of an ask the core keeps as it was
		delete(s.RejectNoEffect, r.AllocationKey)
		return
	}
	if m := s.Allocs[r.AllocationKey]; m != nil {
		if m.Status == stPending || (m.RMPlaced && !m.EverBound) {
			m.Status = stGone
			m.RejectReason = "rejected: " + r.Reason
		}
	} else if f := s.Foreign[r.AllocationKey]; f != nil {
		f.Status = stGone
		f.RejectReason = "rejected: " + r.Reason
	}
}

func (s *Shim) nowMs() int64 { return time.Since(s.start).Milliseconds() }

func (s *Shim) dropObligation(key string) {
	out := s.Owed[:0]
	for _, o := range s.Owed {
		if o.Key != key {
			out = append(out, o)
		}
	}
	s.Owed = out
}

// in-flight tracking: requests the shim sent that the core has not finished processing. Under
// run-to-completion these sets are empty at every quiescent point; the driver clears them there.
type inflight struct {
	releases map[string]bool
	confirms map[string]bool
	appRm    map[string]bool
	nodeRm   map[string]bool
}

var infl = inflight{releases: map[string]bool{}, confirms: map[string]bool{}, appRm: map[string]bool{}, nodeRm: map[string]bool{}}

func (s *Shim) releaseInFlight(key string) bool    { return infl.releases[key] }
func (s *Shim) confirmInFlight(key string) bool    { return infl.confirms[key] }
func (s *Shim) appRemovalInFlight(id string) bool  { return infl.appRm[id] }
func (s *Shim) nodeRemovalInFlight(id string) bool { return infl.nodeRm[id] }
func (s *Shim) clearInFlight() {
	infl = inflight{releases: map[string]bool{}, confirms: map[string]bool{}, appRm: map[string]bool{}, nodeRm: map[string]bool{}}
	for _, n := range s.Nodes {
		if len(n.CapHist) > 0 {
			n.CapHist = n.CapHist[:0]
		}
		n.SchedHist = n.SchedHist[:0]
	}
}

func (s *Shim) appGone(id string) bool {
	a := s.Apps[id]
	return a == nil || a.Status == "removed" || a.Status == "rejected"
}
func (s *Shim) appRemoveSent(id string) bool { a := s.Apps[id]; return a != nil && a.RemoveSent }
func (s *Shim) nodeGone(id string) bool {
	n := s.Nodes[id]
	return n == nil || n.Status == "removed" || n.Status == "rejected"
}
func (s *Shim) nodeRemoveSent(id string) bool { n := s.Nodes[id]; return n != nil && n.RemoveSent }

// ---- shim-view sums used by the oracles ------------------------------------------------------------

// live: counts towards usage from the shim's point of view (bound, or bound with an unconfirmed release).
func (m *MAlloc) live() bool {
	return m.Status == stBound || (m.Status == stReleasing && m.WasBound)
}

func (s *Shim) sortedAllocKeys() []string { return sortedKeys(s.Allocs) }

func (s *Shim) nodeUsage(node string) Res {
	sum := Res{}
	for _, m := range s.Allocs {
		if m.live() && m.Node == node {
			sum.AddTo(m.Res)
		}
	}
	return sum
}

func (s *Shim) nodeForeign(node string) Res {
	sum := Res{}
	for _, m := range s.Foreign {
		if m.Status == stBound && m.Node == node {
			sum.AddTo(m.Res)
		}
	}
	return sum
}

func (s *Shim) appAllocs(app string) []*MAlloc {
	var out []*MAlloc
	for _, k := range s.sortedAllocKeys() {
		if m := s.Allocs[k]; m.App == app {
			out = append(out, m)
		}
	}
	return out
}

func (s *Shim) liveNodeIDs() []string {
	var out []string
	for id, n := range s.Nodes {
		if n.Status == "accepted" {
			out = append(out, id)
		}
	}
	sort.Strings(out)
	return out
}

func (s *Shim) liveAppIDs() []string {
	var out []string
	for id, a := range s.Apps {
		if a.Status == "accepted" {
			out = append(out, id)
		}
	}
	sort.Strings(out)
	return out
}
