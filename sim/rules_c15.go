package sim

import (
	"fmt"
	"regexp"
	"strings"
)

// RuleCheck is the reference for C15: the documented hierarchy rules, stated over the configuration model and
// independent of the validator of the core. It returns the first rule the document breaks ("" = none). Sparse
// resource vectors: a type a maximum does not name is unlimited, a type a guarantee does not name is not guaranteed.
//
//	names      unique (case insensitive) valid queue names, a single root
//	root       the root queue carries no resource limits of its own
//	max        each queue's maximum within the (effective) maximum of its parent
//	guaranteed guaranteed within maximum
//	sum        the children's guaranteed sums within the parent's guaranteed and maximum
//	maxapps    max applications do not grow downwards
//	limit      user/group limits within the queue maximum and within the same user's (group's), or else the
//	           wildcard's, limit on every ancestor
func (c *ConfSpec) RuleCheck() string {
	if c.Root == nil || c.Root.Name != "root" {
		return "names: the top queue is not root"
	}
	if len(c.Root.Max) > 0 || len(c.Root.Guar) > 0 {
		return "root: the root queue has resource limits"
	}
	return ruleQueue(c.Root, "root", nil, 0, map[string]LimitSpec{})
}

var ruleNameRE = regexp.MustCompile(`^[a-zA-Z0-9_:#/@-]{1,64}$`)

func minDefined(a, b Res) Res {
	out := Res{}
	for k, v := range a {
		out[k] = v
	}
	for k, v := range b {
		if cur, ok := out[k]; !ok || v < cur {
			out[k] = v
		}
	}
	return out
}

// effective guaranteed of a queue for the sum rule: its own, or if it has none the sum of its children
func ruleGuar(q *QSpec) Res {
	if len(q.Guar) > 0 {
		return q.Guar
	}
	sum := Res{}
	for _, ch := range q.Children {
		sum.AddTo(ruleGuar(ch))
	}
	return sum
}

func ruleQueue(q *QSpec, path string, parentEffMax Res, parentMaxApps uint64, inh map[string]LimitSpec) string {
	if !ruleNameRE.MatchString(q.Name) {
		return fmt.Sprintf("names: invalid queue name %q", q.Name)
	}
	seen := map[string]bool{}
	for _, ch := range q.Children {
		n := strings.ToLower(ch.Name)
		if seen[n] {
			return fmt.Sprintf("names: duplicate queue %s below %s", n, path)
		}
		seen[n] = true
	}
	if !q.Max.FitsInMaxUndef(parentEffMax) {
		return fmt.Sprintf("max: queue %s maximum %s above its parent's %s", path, q.Max, parentEffMax)
	}
	effMax := minDefined(parentEffMax, q.Max)
	if !q.Guar.FitsInMaxUndef(q.Max) {
		return fmt.Sprintf("guaranteed: queue %s guaranteed %s above its maximum %s", path, q.Guar, q.Max)
	}
	if len(q.Children) > 0 {
		sum := Res{}
		for _, ch := range q.Children {
			sum.AddTo(ruleGuar(ch))
		}
		if path != "root" {
			if len(q.Guar) > 0 && !sum.FitsInMaxUndef(q.Guar) {
				return fmt.Sprintf("sum: children of %s guarantee %s, the queue itself %s", path, sum, q.Guar)
			}
			if !sum.FitsInMaxUndef(effMax) {
				return fmt.Sprintf("sum: children of %s guarantee %s, the maximum is %s", path, sum, effMax)
			}
		}
	}
	if parentMaxApps != 0 && q.MaxApps > parentMaxApps {
		return fmt.Sprintf("maxapps: queue %s allows %d applications, its parent %d", path, q.MaxApps, parentMaxApps)
	}
	// limits
	own := map[string]LimitSpec{}
	for _, l := range q.Limits {
		// the statement speaks of the queue maximum: the one the queue configures (a limit above what an ancestor
		// allows is not excluded by it, and is harmless: the ancestor's maximum holds anyway)
		if !l.MaxRes.FitsInMaxUndef(q.Max) {
			return fmt.Sprintf("limit: a limit of %s allows %s, the queue maximum is %s", path, l.MaxRes, q.Max)
		}
		if q.MaxApps != 0 && l.MaxApps > q.MaxApps {
			return fmt.Sprintf("limit: a limit of %s allows %d applications, the queue %d", path, l.MaxApps, q.MaxApps)
		}
		names := []string{}
		for _, u := range l.Users {
			names = append(names, "u:"+u)
		}
		for _, g := range l.Groups {
			names = append(names, "g:"+g)
		}
		for _, n := range names {
			up, ok := inh[n]
			if !ok && !strings.HasSuffix(n, ":*") {
				up, ok = inh[n[:2]+"*"]
			}
			if ok {
				if len(up.MaxRes) > 0 && !l.MaxRes.FitsInMaxUndef(up.MaxRes) {
					return fmt.Sprintf("limit: %s on %s allows %s, an ancestor allows %s", n, path, l.MaxRes, up.MaxRes)
				}
				if up.MaxApps != 0 && l.MaxApps > up.MaxApps {
					return fmt.Sprintf("limit: %s on %s allows %d applications, an ancestor allows %d", n, path, l.MaxApps, up.MaxApps)
				}
			}
			own[n] = l
		}
	}
	next := map[string]LimitSpec{}
	for k, v := range inh {
		next[k] = v
	}
	for k, l := range own {
		if up, ok := inh[k]; ok {
			// what holds further down is the tighter of both
			m := LimitSpec{MaxRes: minDefined(up.MaxRes, l.MaxRes), MaxApps: l.MaxApps}
			if m.MaxApps == 0 || (up.MaxApps != 0 && up.MaxApps < m.MaxApps) {
				m.MaxApps = up.MaxApps
			}
			next[k] = m
		} else {
			next[k] = l
		}
	}
	apps := q.MaxApps
	if apps == 0 {
		apps = parentMaxApps
	}
	for _, ch := range q.Children {
		if msg := ruleQueue(ch, path+"."+strings.ToLower(ch.Name), effMax, apps, next); msg != "" {
			return msg
		}
	}
	return ""
}
