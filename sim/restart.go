package sim

import (
	"encoding/json"
	"fmt"
	"sort"
)

// FrozenState is everything that survives a crash of the core: what the shim knows, the configuration text
// and (for comparison only, and only when taken at a quiescent point) the totals the old core reported.
type FrozenState struct {
	Where   string             `json:"where"` // "step" (quiescent boundary) or "callback" (inside a core->shim callback)
	Step    int                `json:"step"`
	Allocs  map[string]*MAlloc `json:"allocs"`
	Apps    map[string]*MApp   `json:"apps"`
	Nodes   map[string]*MNode  `json:"nodes"`
	Foreign map[string]*MAlloc `json:"foreign"`
	Conf    *ConfSpec          `json:"conf"`
	World   *WorldSpec         `json:"world"`
	AppQ    map[string]string  `json:"appq"`          // queue the old core had placed each application in
	Old     *OldTotals         `json:"old,omitempty"` // only for Where == "step"
	NApp    int                `json:"napp"`
	NAsk    int                `json:"nask"`
	NNode   int                `json:"nnode"`
	Swaps   bool               `json:"swaps"` // a placeholder swap was in flight (core-internal state the shim does not know)
	Dirty   bool               `json:"dirty"` // the old core had already violated an invariant (known finding): its own totals are no reference
}

type OldTotals struct {
	NodeAlloc  map[string]Res `json:"node_alloc"`
	NodeOcc    map[string]Res `json:"node_occ"`
	QueueAlloc map[string]Res `json:"queue_alloc"`
	QueuePend  map[string]Res `json:"queue_pend"`
	AppAlloc   map[string]Res `json:"app_alloc"`
	AppPend    map[string]Res `json:"app_pend"`
}

// freeze is called with the shim lock held.
func (s *Sim) freeze(where string) {
	if !s.cfg.Freeze {
		return
	}
	s.freezeSeen++
	// reservoir sample, seeded
	const max = 40
	slot := -1
	if len(s.frozen) < max {
		slot = len(s.frozen)
		s.frozen = append(s.frozen, nil)
	} else if j := s.zrng.Intn(s.freezeSeen); j < max {
		slot = j
	}
	if slot < 0 {
		return
	}
	f := FrozenState{Where: where, Step: s.step, Allocs: s.shim.Allocs, Apps: s.shim.Apps, Nodes: s.shim.Nodes, Foreign: s.shim.Foreign,
		Conf: s.conf, World: s.world, AppQ: map[string]string{}, NApp: s.nApp, NAsk: s.nAsk, NNode: s.nNode, Dirty: len(s.violations)+len(s.shim.violations) > 0}
	if s.post != nil {
		for id, a := range s.post.Apps {
			f.AppQ[id] = a.Queue
		}
		for _, n := range s.post.Nodes {
			for _, al := range n.Allocs {
				if al.ReleaseKey != "" {
					f.Swaps = true
				}
			}
		}
		if where == "step" {
			o := &OldTotals{NodeAlloc: map[string]Res{}, NodeOcc: map[string]Res{}, QueueAlloc: map[string]Res{}, QueuePend: map[string]Res{}, AppAlloc: map[string]Res{}, AppPend: map[string]Res{}}
			for id, n := range s.post.Nodes {
				o.NodeAlloc[id] = n.Alloc
				o.NodeOcc[id] = n.Occupied
			}
			for p, q := range s.post.Queues {
				o.QueueAlloc[p] = q.Alloc
				o.QueuePend[p] = q.Pending
			}
			for id, a := range s.post.Apps {
				o.AppAlloc[id] = a.Alloc.Add(a.PhAlloc)
				o.AppPend[id] = a.Pending
			}
			f.Old = o
		}
	}
	b, err := json.Marshal(&f)
	if err != nil {
		fatal2("cannot freeze: " + err.Error())
	}
	s.frozen[slot] = b
}

type recItem struct {
	kind string // node, app, alloc, ask, foreign
	id   string
}

// recoverFrom replays the frozen shim knowledge into the fresh core in a seeded order that respects only
// real dependencies (an allocation after its node and its application).
func (s *Sim) recoverFrom(f *FrozenState) {
	sh := s.shim
	r := NewRng(s.cfg.Seed, "recovery")
	var items []recItem
	for _, id := range sortedKeys(f.Nodes) {
		if f.Nodes[id].Status == "accepted" {
			items = append(items, recItem{"node", id})
		}
	}
	// an application the old core reported as terminated is not replayed by the shim
	liveApp := func(id string) bool {
		a := f.Apps[id]
		if a == nil || a.Status != "accepted" {
			return false
		}
		if n := len(a.States); n > 0 {
			switch a.States[n-1] {
			case "Failed", "Completed", "Expired", "Rejected":
				return false
			}
		}
		return true
	}
	for _, id := range sortedKeys(f.Apps) {
		if liveApp(id) {
			items = append(items, recItem{"app", id})
		}
	}
	liveNode := func(id string) bool { n := f.Nodes[id]; return n != nil && n.Status == "accepted" }
	for _, k := range sortedKeys(f.Allocs) {
		m := f.Allocs[k]
		switch {
		case m.live() && liveApp(m.App) && liveNode(m.Node):
			items = append(items, recItem{"alloc", k})
		case m.Status == stPending && liveApp(m.App):
			items = append(items, recItem{"ask", k})
		}
	}
	for _, k := range sortedKeys(f.Foreign) {
		if m := f.Foreign[k]; m.Status == stBound && liveNode(m.Node) {
			items = append(items, recItem{"foreign", k})
		}
	}
	// seeded topological shuffle
	for i := len(items) - 1; i > 0; i-- {
		j := r.Intn(i + 1)
		items[i], items[j] = items[j], items[i]
	}
	done := map[string]bool{}
	var order []recItem
	for len(order) < len(items) {
		before := len(order)
		for _, it := range items {
			if done[it.kind+it.id] {
				continue
			}
			ok := true
			switch it.kind {
			case "alloc":
				m := f.Allocs[it.id]
				ok = done["node"+m.Node] && done["app"+m.App]
			case "ask":
				ok = done["app"+f.Allocs[it.id].App]
			case "foreign":
				ok = done["node"+f.Foreign[it.id].Node]
			}
			if ok {
				done[it.kind+it.id] = true
				order = append(order, it)
			}
		}
		if len(order) == before {
			var stuck []string
			for _, it := range items {
				if !done[it.kind+it.id] {
					stuck = append(stuck, it.kind+":"+it.id)
				}
			}
			fatal2(fmt.Sprintf("recovery order: no progress, stuck items %v", stuck))
		}
	}
	// the fresh shim model starts from what it re-sends
	sh.mu.Lock()
	sh.Allocs = map[string]*MAlloc{}
	sh.Apps = map[string]*MApp{}
	sh.Nodes = map[string]*MNode{}
	sh.Foreign = map[string]*MAlloc{}
	sh.mu.Unlock()
	s.nApp, s.nAsk, s.nNode = f.NApp+1000, f.NAsk+1000, f.NNode+1000
	for _, it := range order {
		var op Op
		switch it.kind {
		case "node":
			n := f.Nodes[it.id]
			op = Op{Kind: "node_add", Node: it.id, Cap: n.Cap.Clone(), Drain: !n.Schedulable}
		case "app":
			a := f.Apps[it.id]
			tags := map[string]string{}
			for k, v := range a.Tags {
				if k != "sim/dup" {
					tags[k] = v
				}
			}
			tags["application.create.force"] = "true"
			args := &AppArgs{ID: it.id, Queue: a.Queue, User: a.User, Groups: a.Groups, Tags: tags, GangStyle: a.GangStyle, TimeoutMs: a.TimeoutMs, NilUgi: a.UgiNil}
			// the shim sends the queue the application runs in
			if q := f.AppQ[it.id]; q != "" && q != "root.@recovery@" {
				args.Queue = q
			}
			for _, tg := range sortedKeys(a.TaskGroups) {
				args.TaskGroups = append(args.TaskGroups, TaskGroup{Name: tg, Count: a.TaskGroups[tg], Res: Res{}})
			}
			if a.Gang {
				args.PhAsk = a.PhAsk.Clone()
				if args.PhAsk == nil {
					args.PhAsk = Res{}
				}
			}
			op = Op{Kind: "app_add", App: args, Fault: "recovery"}
		case "alloc", "ask":
			m := f.Allocs[it.id]
			a := AskArgs{Key: m.Key, App: m.App, Res: m.Res.Clone(), Priority: m.Priority, Placeholder: m.Placeholder, TaskGroup: m.TaskGroup, RequiredNode: m.RequiredNode,
				PreemptSelf: m.PreemptSelf, PreemptOther: m.PreemptOther, Originator: m.Originator}
			if it.kind == "alloc" {
				a.Node = m.Node
			}
			op = Op{Kind: "ask", Asks: []AskArgs{a}, Fault: "recovery"}
		case "foreign":
			m := f.Foreign[it.id]
			op = Op{Kind: "ask", Asks: []AskArgs{{Key: m.Key, Res: m.Res.Clone(), Node: m.Node, Foreign: "default"}}, Fault: "recovery"}
		}
		s.recovering = true
		s.doStep(op)
	}
	s.recovering = false
	s.recSteps = s.steps
	s.faults["core_restart"]++
	s.compareRecovered(f)
	// the old core had asked the shim to replace these placeholders; the shim finishes what it was asked to do and
	// reports it to the new core, which knows nothing about a replacement: a plain removal, booked everywhere
	for _, k := range sortedKeys(f.Allocs) {
		m := f.Allocs[k]
		if !m.Placeholder || m.Status != stReleasing || m.RelType != "PLACEHOLDER_REPLACED" || !r.Bool(0.6) {
			continue
		}
		cur := sh.Allocs[k]
		if cur == nil || cur.Status != stBound || s.post == nil {
			continue
		}
		pre := s.post
		pa := pre.Apps[m.App]
		if pa == nil || pa.Allocs[k] == nil || pa.Allocs[k].ReleaseKey != "" {
			continue
		}
		res := pa.Allocs[k].Res
		node := pa.Allocs[k].Node
		s.faults["late_swap_confirmation_after_restart"]++
		s.doStep(Op{Kind: "release", Key: k, AppID: m.App, Type: "PLACEHOLDER_REPLACED", Fault: "recovery_late_confirm"})
		p := s.post
		if a := p.Apps[m.App]; a != nil && a.Allocs[k] != nil {
			s.violate("C12", "late-confirmation-ignored", "", "recovery: the shim released placeholder %s (replacement requested by the old core) but the new core still lists it", k)
			continue
		}
		for _, qp := range ancestors(pa.Queue) {
			if pq, q := pre.Queues[qp], p.Queues[qp]; pq != nil && q != nil && !q.Alloc.Eq(pq.Alloc.Sub(res)) {
				s.violate("C12", "late-confirmation-books", "queue", "recovery: releasing placeholder %s %s took queue %s from %s to %s", k, res, qp, pq.Alloc, q.Alloc)
				break
			}
		}
		if pn, n := pre.Nodes[node], p.Nodes[node]; pn != nil && n != nil && !n.Alloc.Eq(pn.Alloc.Sub(res)) {
			s.violate("C12", "late-confirmation-books", "node", "recovery: releasing placeholder %s %s took node %s from %s to %s", k, res, node, pn.Alloc, n.Alloc)
		}
		if a := p.Apps[m.App]; a != nil && !a.PhAlloc.Eq(pa.PhAlloc.Sub(res)) {
			s.violate("C12", "late-confirmation-books", "application", "recovery: releasing placeholder %s %s took the placeholder total of %s from %s to %s", k, res, m.App, pa.PhAlloc, a.PhAlloc)
		}
	}
}

// compareRecovered: the new core accepted everything and rebuilt the same totals.
func (s *Sim) compareRecovered(f *FrozenState) {
	p := s.post
	sh := s.shim
	sh.mu.Lock()
	defer sh.mu.Unlock()
	s.probe("restart_compared")
	for _, id := range sortedKeys(sh.Apps) {
		if a := sh.Apps[id]; a.Status != "accepted" {
			s.violate("C12", "recovered-app-not-accepted", a.Status, "recovery: forced application %s (queue %s, user %q) was not accepted: %s %s", id, a.Queue, a.User, a.Status, a.RejectMsg)
		}
	}
	for _, id := range sortedKeys(sh.Nodes) {
		if n := sh.Nodes[id]; n.Status != "accepted" {
			s.violate("C12", "recovered-node-not-accepted", n.Status, "recovery: node %s was not accepted: %s", id, n.Status)
		}
	}
	for _, k := range sh.sortedAllocKeys() {
		m := sh.Allocs[k]
		if m.Status == stGone {
			s.violate("C12", "recovered-allocation-rejected", "", "recovery: allocation/ask %s of %s was refused: %s", k, m.App, m.RejectReason)
		}
	}
	// per node
	for _, id := range sortedKeys(sh.Nodes) {
		want := sh.nodeUsage(id)
		n := p.Nodes[id]
		if n == nil {
			continue
		}
		if !n.Alloc.Eq(want) {
			s.violate("C12", "node-total", "", "recovery: node %s reports allocated %s, the replayed allocations sum to %s", id, n.Alloc, want)
		}
		if !n.Occupied.Eq(sh.nodeForeign(id)) {
			s.violate("C12", "node-occupied", "", "recovery: node %s reports occupied %s, the replayed foreign allocations sum to %s", id, n.Occupied, sh.nodeForeign(id))
		}
		if f.Old != nil && !f.Swaps && !f.Dirty {
			if o, ok := f.Old.NodeAlloc[id]; ok && !o.Eq(n.Alloc) {
				s.violate("C12", "node-total-vs-old", "", "recovery: node %s had allocated %s in the old core, %s in the new", id, o, n.Alloc)
			}
		}
	}
	// per application
	for _, id := range sortedKeys(sh.Apps) {
		a := p.Apps[id]
		if a == nil {
			continue
		}
		wantA, wantP := Res{}, Res{}
		for _, m := range sh.appAllocs(id) {
			if m.live() {
				wantA.AddTo(m.Res)
			} else if m.Status == stPending {
				wantP.AddTo(m.Res)
			}
		}
		if got := a.Alloc.Add(a.PhAlloc); !got.Eq(wantA) {
			s.violate("C12", "app-total", "", "recovery: application %s reports allocated %s, the replayed allocations sum to %s", id, got, wantA)
		}
		if !a.Pending.Eq(wantP) {
			s.violate("C12", "app-pending", "", "recovery: application %s reports pending %s, the replayed asks sum to %s", id, a.Pending, wantP)
		}
		if f.Old != nil && !f.Swaps && !f.Dirty {
			if o, ok := f.Old.AppAlloc[id]; ok && !o.Eq(a.Alloc.Add(a.PhAlloc)) {
				s.violate("C12", "app-total-vs-old", "", "recovery: application %s had allocated %s in the old core, %s in the new", id, o, a.Alloc.Add(a.PhAlloc))
			}
		}
		oldQ := f.AppQ[id]
		switch {
		case oldQ == "" || a.Queue == oldQ:
			s.probe("recovered_same_queue")
		case a.Queue == "root.@recovery@":
			s.probe("recovered_into_recovery_queue")
		default:
			s.probe("recovered_other_queue")
		}
	}
	// per queue: the root, and every queue that holds the same applications as before
	if f.Old != nil && !f.Swaps && !f.Dirty {
		sameQ := true
		for id := range sh.Apps {
			if a := p.Apps[id]; a == nil || (f.AppQ[id] != "" && a.Queue != f.AppQ[id]) {
				sameQ = false
			}
		}
		for _, path := range sortedKeys(f.Old.QueueAlloc) {
			q := p.Queues[path]
			if q == nil || (!sameQ && path != "root") {
				continue
			}
			if !q.Alloc.Eq(f.Old.QueueAlloc[path]) {
				s.violate("C12", "queue-total-vs-old", "", "recovery: queue %s had allocated %s in the old core, %s in the new", path, f.Old.QueueAlloc[path], q.Alloc)
			}
			if !q.Pending.Eq(f.Old.QueuePend[path]) {
				s.violate("C12", "queue-pending-vs-old", "", "recovery: queue %s had pending %s in the old core, %s in the new", path, f.Old.QueuePend[path], q.Pending)
			}
		}
	}
}

func frozenList(fs [][]byte) []json.RawMessage {
	var out []json.RawMessage
	for _, b := range fs {
		if b != nil {
			out = append(out, b)
		}
	}
	sort.Slice(out, func(i, j int) bool { return string(out[i]) < string(out[j]) })
	return out
}

var _ = fmt.Sprintf
