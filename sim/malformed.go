package sim

import (
	"fmt"

	"github.com/apache/yunikorn-scheduler-interface/lib/go/si"
)

// The catalogue of requests a protobuf decoder can deliver but a sane shim would not send (C13).
// Each entry says which answer the protocol owes (if any) and that the books must not move.

type malformedCase struct {
	name   string
	reject string // "app", "alloc", "node" or "" (the protocol has no answer for it); "legal": unusual but valid, only no-panic/no-hang applies
	send   func(s *Sim, id string)
}

func resSI(r Res) *si.Resource { return r.ToSI() }

func (s *Sim) sendAlloc(a *si.Allocation) {
	if a.PartitionName == "" {
		a.PartitionName = "default"
	}
	_ = s.sc.RMProxy.UpdateAllocation(&si.AllocationRequest{RmID: s.shim.rmID, Allocations: []*si.Allocation{a}})
}

func (s *Sim) sendRelease(r *si.AllocationRelease) {
	if r.PartitionName == "" {
		r.PartitionName = "default"
	}
	_ = s.sc.RMProxy.UpdateAllocation(&si.AllocationRequest{RmID: s.shim.rmID, Releases: &si.AllocationReleasesRequest{AllocationsToRelease: []*si.AllocationRelease{r}}})
}

func (s *Sim) sendApp(a *si.AddApplicationRequest) {
	if a.PartitionName == "" {
		a.PartitionName = "default"
	}
	_ = s.sc.RMProxy.UpdateApplication(&si.ApplicationRequest{RmID: s.shim.rmID, New: []*si.AddApplicationRequest{a}})
}

// someLive* pick existing objects so that the malformed request hits real state.
func (s *Sim) someLiveApp() string {
	// live for the shim and for the core
	var ids []string
	for _, id := range s.shim.liveAppIDs() {
		if s.post != nil && s.post.Apps[id] != nil {
			ids = append(ids, id)
		}
	}
	if len(ids) > 0 {
		return ids[s.mrng.Intn(len(ids))]
	}
	return "app-none"
}

func (s *Sim) someLiveNode() string {
	if ids := s.shim.liveNodeIDs(); len(ids) > 0 {
		return ids[s.mrng.Intn(len(ids))]
	}
	return "node-none"
}

func (s *Sim) someBound(placeholder bool) *MAlloc {
	var c []*MAlloc
	for _, m := range s.boundAllocs() {
		if m.Placeholder == placeholder {
			c = append(c, m)
		}
	}
	if len(c) == 0 {
		return nil
	}
	return c[s.mrng.Intn(len(c))]
}

var malformedCatalogue = []malformedCase{
	{"app-nil-ugi", "app", func(s *Sim, id string) {
		s.sendApp(&si.AddApplicationRequest{ApplicationID: id, QueueName: "root.a"})
	}},
	{"app-nil-ugi-forced", "legal", func(s *Sim, id string) {
		// a forced application is accepted whatever it looks like (anonymous user, recovery queue): remove it again
		s.sendApp(&si.AddApplicationRequest{ApplicationID: id, QueueName: "root.a", Tags: map[string]string{"application.create.force": "true"}})
		_ = s.sc.RMProxy.UpdateApplication(&si.ApplicationRequest{RmID: s.shim.rmID, Remove: []*si.RemoveApplicationRequest{{ApplicationID: id, PartitionName: "default"}}})
	}},
	{"app-empty-user", "app", func(s *Sim, id string) {
		s.sendApp(&si.AddApplicationRequest{ApplicationID: id, QueueName: "root.a", Ugi: &si.UserGroupInformation{User: ""}})
	}},
	{"app-bad-user-name", "app", func(s *Sim, id string) {
		// with groups given the name is checked against the user name pattern (without groups the resolver decides)
		s.sendApp(&si.AddApplicationRequest{ApplicationID: id, QueueName: "root.a", Ugi: &si.UserGroupInformation{User: "not a valid user!!", Groups: []string{"dev"}}})
	}},
	{"app-unknown-partition", "app", func(s *Sim, id string) {
		s.sendApp(&si.AddApplicationRequest{ApplicationID: id, QueueName: "root.a", PartitionName: "nosuch", Ugi: &si.UserGroupInformation{User: "alice"}})
	}},
	{"app-unknown-queue", "app", func(s *Sim, id string) {
		s.sendApp(&si.AddApplicationRequest{ApplicationID: id, QueueName: "root.this.does.not.exist.and.cannot", Ugi: &si.UserGroupInformation{User: "alice"}})
	}},
	{"app-bad-queue-name", "app", func(s *Sim, id string) {
		s.sendApp(&si.AddApplicationRequest{ApplicationID: id, QueueName: "root.bad name!.x", Ugi: &si.UserGroupInformation{User: "alice"}})
	}},
	{"app-duplicate-live-id", "app", func(s *Sim, id string) {
		live := s.someLiveApp()
		if live == "app-none" {
			s.lastMalformed = malformedCase{}
			return
		}
		s.shim.mu.Lock()
		if a := s.shim.Apps[live]; a != nil {
			if a.Tags == nil {
				a.Tags = map[string]string{}
			}
			a.Tags["sim/dup"] = "1"
		}
		s.shim.mu.Unlock()
		s.sendApp(&si.AddApplicationRequest{ApplicationID: live, QueueName: "root.a", Ugi: &si.UserGroupInformation{User: "alice"}})
	}},
	{"app-remove-unknown", "", func(s *Sim, id string) {
		_ = s.sc.RMProxy.UpdateApplication(&si.ApplicationRequest{RmID: s.shim.rmID, Remove: []*si.RemoveApplicationRequest{{ApplicationID: id, PartitionName: "default"}}})
	}},
	{"app-remove-unknown-partition", "", func(s *Sim, id string) {
		_ = s.sc.RMProxy.UpdateApplication(&si.ApplicationRequest{RmID: s.shim.rmID, Remove: []*si.RemoveApplicationRequest{{ApplicationID: s.someLiveApp(), PartitionName: "nosuch"}}})
	}},
	{"ask-unknown-app", "alloc", func(s *Sim, id string) {
		s.sendAlloc(&si.Allocation{AllocationKey: id, ApplicationID: "app-does-not-exist", ResourcePerAlloc: resSI(Res{"vcore": 1})})
	}},
	{"ask-nil-resource", "alloc", func(s *Sim, id string) {
		s.sendAlloc(&si.Allocation{AllocationKey: id, ApplicationID: s.someLiveApp()})
	}},
	{"ask-zero-resource", "alloc", func(s *Sim, id string) {
		s.sendAlloc(&si.Allocation{AllocationKey: id, ApplicationID: s.someLiveApp(), ResourcePerAlloc: resSI(Res{"vcore": 0, "memory": 0})})
	}},
	{"ask-negative-resource", "alloc", func(s *Sim, id string) {
		s.sendAlloc(&si.Allocation{AllocationKey: id, ApplicationID: s.someLiveApp(), ResourcePerAlloc: resSI(Res{"vcore": 2, "memory": -3})})
	}},
	{"ask-unknown-partition", "alloc", func(s *Sim, id string) {
		s.sendAlloc(&si.Allocation{AllocationKey: id, ApplicationID: s.someLiveApp(), PartitionName: "nosuch", ResourcePerAlloc: resSI(Res{"vcore": 1})})
	}},
	{"ask-placeholder-without-task-group", "alloc", func(s *Sim, id string) {
		s.sendAlloc(&si.Allocation{AllocationKey: id, ApplicationID: s.someLiveApp(), Placeholder: true, ResourcePerAlloc: resSI(Res{"vcore": 1})})
	}},
	{"alloc-unknown-node", "alloc", func(s *Sim, id string) {
		s.sendAlloc(&si.Allocation{AllocationKey: id, ApplicationID: s.someLiveApp(), NodeID: "node-does-not-exist", ResourcePerAlloc: resSI(Res{"vcore": 1})})
	}},
	{"alloc-unknown-app-on-node", "alloc", func(s *Sim, id string) {
		s.sendAlloc(&si.Allocation{AllocationKey: id, ApplicationID: "app-does-not-exist", NodeID: s.someLiveNode(), ResourcePerAlloc: resSI(Res{"vcore": 1})})
	}},
	{"foreign-without-node", "alloc", func(s *Sim, id string) {
		s.sendAlloc(&si.Allocation{AllocationKey: id, AllocationTags: map[string]string{"foreign": "default"}, ResourcePerAlloc: resSI(Res{"vcore": 1})})
	}},
	{"foreign-unknown-node", "alloc", func(s *Sim, id string) {
		s.sendAlloc(&si.Allocation{AllocationKey: id, NodeID: "node-does-not-exist", AllocationTags: map[string]string{"foreign": "static"}, ResourcePerAlloc: resSI(Res{"vcore": 1})})
	}},
	{"foreign-bad-tag-value", "", func(s *Sim, id string) {
		// accepted with the default type: occupies the node; removed again right away
		n := s.someLiveNode()
		s.sendAlloc(&si.Allocation{AllocationKey: id, NodeID: n, AllocationTags: map[string]string{"foreign": "whatever"}, ResourcePerAlloc: resSI(Res{"vcore": 1})})
		s.sendRelease(&si.AllocationRelease{AllocationKey: id})
	}},
	{"ask-empty-key", "", func(s *Sim, id string) {
		s.sendAlloc(&si.Allocation{AllocationKey: "", ApplicationID: "app-does-not-exist", ResourcePerAlloc: resSI(Res{"vcore": 1})})
	}},
	{"release-unknown-key", "", func(s *Sim, id string) {
		for _, t := range []si.TerminationType{si.TerminationType_STOPPED_BY_RM, si.TerminationType_TIMEOUT, si.TerminationType_PREEMPTED_BY_SCHEDULER, si.TerminationType_PLACEHOLDER_REPLACED, si.TerminationType_UNKNOWN_TERMINATION_TYPE} {
			s.sendRelease(&si.AllocationRelease{ApplicationID: s.someLiveApp(), AllocationKey: id, TerminationType: t})
		}
	}},
	{"release-unknown-app", "", func(s *Sim, id string) {
		s.sendRelease(&si.AllocationRelease{ApplicationID: "app-does-not-exist", AllocationKey: id, TerminationType: si.TerminationType_STOPPED_BY_RM})
	}},
	{"release-unknown-partition", "", func(s *Sim, id string) {
		key := id
		if m := s.someBound(false); m != nil {
			key = m.Key
		}
		s.sendRelease(&si.AllocationRelease{ApplicationID: s.someLiveApp(), PartitionName: "nosuch", AllocationKey: key, TerminationType: si.TerminationType_STOPPED_BY_RM})
	}},
	{"release-foreign-unknown", "", func(s *Sim, id string) {
		s.sendRelease(&si.AllocationRelease{AllocationKey: id})
	}},
	{"release-unknown-termination-type", "", func(s *Sim, id string) {
		s.sendRelease(&si.AllocationRelease{ApplicationID: s.someLiveApp(), AllocationKey: id, TerminationType: si.TerminationType(77)})
	}},
	{"node-update-unknown", "", func(s *Sim, id string) {
		s.sendNodes(s.nodeInfo(id, si.NodeInfo_UPDATE, Res{"vcore": 4}), s.nodeInfo(id, si.NodeInfo_DRAIN_NODE, nil), s.nodeInfo(id, si.NodeInfo_DRAIN_TO_SCHEDULABLE, nil), s.nodeInfo(id, si.NodeInfo_DECOMISSION, nil))
	}},
	{"node-unknown-partition", "node", func(s *Sim, id string) {
		ni := s.nodeInfo(id, si.NodeInfo_CREATE, Res{"vcore": 4})
		ni.Attributes["si/node-partition"] = "nosuch"
		s.sendNodes(ni)
	}},
	{"node-duplicate-create", "node", func(s *Sim, id string) {
		live := s.someLiveNode()
		if live == "node-none" {
			s.lastMalformed = malformedCase{}
			return
		}
		s.sendNodes(s.nodeInfo(live, si.NodeInfo_CREATE, Res{"vcore": 99, "memory": 99}))
	}},
	{"node-update-nil-attributes", "", func(s *Sim, id string) {
		_ = s.sc.RMProxy.UpdateNode(&si.NodeRequest{RmID: s.shim.rmID, Nodes: []*si.NodeInfo{{NodeID: s.someLiveNode(), Action: si.NodeInfo_UPDATE}}})
	}},
	{"node-unknown-action", "", func(s *Sim, id string) {
		s.sendNodes(s.nodeInfo(s.someLiveNode(), si.NodeInfo_ActionFromRM(42), nil))
	}},
	{"node-update-nil-resource", "", func(s *Sim, id string) {
		s.sendNodes(s.nodeInfo(s.someLiveNode(), si.NodeInfo_UPDATE, nil))
	}},
	{"empty-requests", "", func(s *Sim, id string) {
		_ = s.sc.RMProxy.UpdateAllocation(&si.AllocationRequest{RmID: s.shim.rmID})
		_ = s.sc.RMProxy.UpdateApplication(&si.ApplicationRequest{RmID: s.shim.rmID})
		_ = s.sc.RMProxy.UpdateNode(&si.NodeRequest{RmID: s.shim.rmID})
		_ = s.sc.RMProxy.UpdateAllocation(&si.AllocationRequest{RmID: s.shim.rmID, Releases: &si.AllocationReleasesRequest{}})
	}},
	{"unknown-rm-id", "", func(s *Sim, id string) {
		_ = s.sc.RMProxy.UpdateAllocation(&si.AllocationRequest{RmID: "rm:unknown", Allocations: []*si.Allocation{{AllocationKey: id, ApplicationID: "x", ResourcePerAlloc: resSI(Res{"vcore": 1})}}})
		_ = s.sc.RMProxy.UpdateNode(&si.NodeRequest{RmID: "rm:unknown", Nodes: []*si.NodeInfo{{NodeID: id, Action: si.NodeInfo_CREATE}}})
	}},
}

// state-dependent entries: they only exist when the state offers the object
func (s *Sim) stateMalformed() []malformedCase {
	var out []malformedCase
	for _, k := range s.shim.sortedAllocKeys() {
		if m := s.shim.Allocs[k]; m.Status == stGone && m.EverBound && s.shim.Apps[m.App] != nil && s.shim.Apps[m.App].Status == "accepted" {
			key, app := m.Key, m.App
			out = append(out, malformedCase{"release-already-released", "", func(s *Sim, id string) {
				for _, t := range []si.TerminationType{si.TerminationType_STOPPED_BY_RM, si.TerminationType_TIMEOUT, si.TerminationType_PREEMPTED_BY_SCHEDULER, si.TerminationType_PLACEHOLDER_REPLACED} {
					s.sendRelease(&si.AllocationRelease{ApplicationID: app, AllocationKey: key, TerminationType: t})
				}
			}})
			break
		}
	}
	// an update of something the core knows, with a negative quantity: refused, nothing changes
	for _, k := range s.shim.sortedAllocKeys() {
		m := s.shim.Allocs[k]
		if a := s.shim.Apps[m.App]; a == nil || a.Status != "accepted" || m.Foreign {
			continue
		}
		if m.Status == stBound || m.Status == stPending {
			key, app, node, tg, ph := m.Key, m.App, m.Node, m.TaskGroup, m.Placeholder
			pending := m.Status == stPending
			name := "update-bound-negative"
			if pending {
				name, node = "update-pending-negative", ""
			}
			out = append(out, malformedCase{name, "alloc", func(s *Sim, id string) {
				if pending {
					s.shim.mu.Lock()
					s.shim.RejectNoEffect[key] = true
					s.shim.mu.Unlock()
				}
				s.sendAlloc(&si.Allocation{AllocationKey: key, ApplicationID: app, NodeID: node, TaskGroupName: tg, Placeholder: ph, ResourcePerAlloc: resSI(Res{"vcore": 2, "memory": -3})})
			}})
			break
		}
	}
	for _, id := range sortedKeys(s.shim.Nodes) {
		n := s.shim.Nodes[id]
		if n.Status == "removed" {
			nid := id
			out = append(out, malformedCase{"update-removed-node", "", func(s *Sim, id string) {
				s.sendNodes(s.nodeInfo(nid, si.NodeInfo_UPDATE, Res{"vcore": 4}), s.nodeInfo(nid, si.NodeInfo_DRAIN_TO_SCHEDULABLE, nil))
			}})
			out = append(out, malformedCase{"allocation-on-removed-node", "alloc", func(s *Sim, id string) {
				s.sendAlloc(&si.Allocation{AllocationKey: id, ApplicationID: s.someLiveApp(), NodeID: nid, ResourcePerAlloc: resSI(Res{"vcore": 1})})
			}})
			break
		}
	}
	for _, id := range sortedKeys(s.shim.Apps) {
		a := s.shim.Apps[id]
		if a.Status == "removed" || a.Status == "rejected" {
			aid := id
			out = append(out, malformedCase{"ask-for-gone-application", "alloc", func(s *Sim, id string) {
				s.sendAlloc(&si.Allocation{AllocationKey: id, ApplicationID: aid, ResourcePerAlloc: resSI(Res{"vcore": 1})})
			}})
			break
		}
	}
	return out
}

func (s *Sim) genMalformed() (Op, bool) {
	// a release of something that exists, with a termination type that makes no sense for it, is a release
	if s.mrng.Bool(0.12) {
		if m := s.someBound(s.mrng.Bool(0.5)); m != nil {
			s.faults["release_unexpected_type"]++
			return Op{Kind: "release", Key: m.Key, AppID: m.App, Type: pick(s.mrng, []string{"PLACEHOLDER_REPLACED", "TIMEOUT", "PREEMPTED_BY_SCHEDULER", "UNKNOWN_TERMINATION_TYPE"}), Fault: "unexpected_type"}, true
		}
	}
	cases := append(append([]malformedCase{}, malformedCatalogue...), s.stateMalformed()...)
	c := cases[s.mrng.Intn(len(cases))]
	s.nAsk++
	return Op{Kind: "malformed", Raw: c.name, Key: fmt.Sprintf("bad-%d", s.nAsk)}, true
}

func (s *Sim) execMalformed(op Op) {
	cases := append(append([]malformedCase{}, malformedCatalogue...), s.stateMalformed()...)
	for _, c := range cases {
		if c.name == op.Raw {
			s.shim.mu.Lock()
			s.shim.badIDs[op.Key] = c.name
			s.shim.mu.Unlock()
			s.faults["malformed"]++
			s.probe("malformed_injected")
			s.probes["malformed:"+c.name]++
			s.lastMalformed = c
			c.send(s, op.Key)
			return
		}
	}
	s.lastMalformed = malformedCase{}
}

// oracleC13: an invalid item is answered with the matching rejection and leaves every book as it was.
func (s *Sim) oracleC13(op Op, evs []SIEvent) {
	if op.Kind != "malformed" || s.pre == nil || s.lastMalformed.name == "" {
		return
	}
	c := s.lastMalformed
	if c.reject == "legal" {
		return
	}
	if d := diffSnap(s.pre, s.post, true); d != "" && c.name != "foreign-bad-tag-value" {
		s.violate("C13", "malformed-changed-state", c.name, "the malformed request %s changed the books: %s", c.name, d)
	}
	if !s.pre.nodesEq(s.post) {
		s.violate("C13", "malformed-changed-state", c.name+"-node", "the malformed request %s changed node accounting", c.name)
	}
	got := map[string]bool{}
	for _, e := range evs {
		switch e.Kind {
		case "appRejected":
			got["app"] = true
		case "rejectedAlloc":
			got["alloc"] = true
		case "nodeRejected":
			got["node"] = true
		case "new", "released", "appAccepted", "nodeAccepted":
			s.violate("C13", "malformed-accepted", c.name, "the malformed request %s produced %s(%s %s %s)", c.name, e.Kind, e.App, e.Key, e.Node)
		}
	}
	if c.reject != "" && !got[c.reject] {
		s.violate("C13", "missing-rejection", c.name, "the malformed request %s was not answered with a rejected %s", c.name, c.reject)
	}
}

func (a *Snap) nodesEq(b *Snap) bool {
	if len(a.Nodes) != len(b.Nodes) {
		return false
	}
	for id, x := range a.Nodes {
		y := b.Nodes[id]
		if y == nil || !x.Alloc.Eq(y.Alloc) || !x.Occupied.Eq(y.Occupied) || !x.Avail.Eq(y.Avail) || !x.Cap.Eq(y.Cap) || len(x.Allocs) != len(y.Allocs) || len(x.Foreign) != len(y.Foreign) {
			return false
		}
	}
	return true
}
