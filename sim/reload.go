package sim

import (
	"fmt"
	"strings"

	"github.com/apache/yunikorn-core/pkg/common/configs"
	"github.com/apache/yunikorn-scheduler-interface/lib/go/si"
)

// ---- mutating configurations (reload_valid / reload_invalid) ---------------------------------------

func (c *ConfSpec) allQueues() []string {
	var out []string
	c.Root.walk("", func(p string, _ *QSpec, _ *QSpec) { out = append(out, p) })
	return out
}

func (c *ConfSpec) parentOf(path string) *QSpec {
	i := strings.LastIndex(path, ".")
	if i < 0 {
		return nil
	}
	return c.Find(path[:i])
}

// effMax: the maximum in force at path through the ancestors (component-wise minimum of the defined ones).
func (c *ConfSpec) effMax(path string) Res {
	eff := Res{}
	for _, qp := range ancestors(path) {
		// a maximum without any positive quantity is no maximum at all (the core ignores it)
		if q := c.Find(qp); q != nil && !q.Max.IsZero() {
			for k, v := range q.Max {
				if cur, ok := eff[k]; !ok || v < cur {
					eff[k] = v
				}
			}
		}
	}
	return eff
}

func (c *ConfSpec) inheritedLimits(path string) map[string]LimitSpec {
	var inh map[string]LimitSpec
	anc := ancestors(path)
	for _, qp := range anc[:len(anc)-1] {
		if q := c.Find(qp); q != nil {
			inh = mergeInherited(inh, q.Limits)
		}
	}
	return inh
}

// mutateConf returns a changed copy of the configuration; the caller validates it.
func (s *Sim) mutateConf() *ConfSpec {
	r := s.rng
	c := s.conf.Clone()
	n := r.Range(1, 3)
	// directed: lower a max-applications setting to (or below) what is running right now
	if s.post != nil && r.Bool(s.pf.MaxApps*0.7) {
		var busy []string
		for _, path := range sortedKeys(s.post.Queues) {
			if q := s.post.Queues[path]; q.Running >= 1 && path != "root" && c.Find(path) != nil {
				busy = append(busy, path)
			}
		}
		if len(busy) > 0 {
			path := pick(r, busy)
			running := int(s.post.Queues[path].Running)
			newMax := uint64(running - r.Intn(2))
			if newMax < 1 {
				newMax = 1
			}
			var lower func(q *QSpec)
			lower = func(q *QSpec) {
				if q.MaxApps == 0 || q.MaxApps > newMax {
					q.MaxApps = newMax
				}
				for _, ch := range q.Children {
					lower(ch)
				}
			}
			lower(c.Find(path))
			s.probe("directed_lower_maxapps")
			n = r.Range(0, 1)
		}
	}
	// directed: a queue the configuration now calls a leaf still holds child queues in the core (its type was
	// flipped while in use): take it out of the configuration
	if s.post != nil && r.Bool(0.4) {
		for _, path := range sortedKeys(s.post.Queues) {
			cq, q := s.post.Queues[path], c.Find(path)
			if q == nil || path == "root" || !q.IsLeaf() || len(cq.Children) == 0 {
				continue
			}
			if par := c.parentOf(path); par != nil && len(par.Children) > 1 {
				var keep []*QSpec
				for _, ch := range par.Children {
					if ch != q {
						keep = append(keep, ch)
					}
				}
				par.Children = keep
				s.graveyard[path] = q.clone()
				s.probe("directed_remove_flipped_queue")
				n = r.Range(0, 1)
				break
			}
		}
	}
	// directed: the maximum of a queue in use is lowered below what it uses (quota change preemption has work)
	if s.pf.QuotaPreempt && s.post != nil && r.Bool(0.3) {
		var busy []string
		for _, path := range sortedKeys(s.post.Queues) {
			if q := s.post.Queues[path]; path != "root" && c.Find(path) != nil && (q.Alloc["vcore"] > 1 || q.Alloc["memory"] > 1) {
				busy = append(busy, path)
			}
		}
		if len(busy) > 0 {
			path := pick(r, busy)
			q := c.Find(path)
			use := s.post.Queues[path].Alloc
			if q.Max == nil {
				q.Max = Res{}
			}
			for _, t := range []string{"vcore", "memory"} {
				if use[t] > 1 && r.Bool(0.7) {
					q.Max[t] = use[t] - int64(r.Range(1, int(use[t])-1))
				}
			}
			// what lies below must stay inside
			var clamp func(x *QSpec)
			clamp = func(x *QSpec) {
				for _, ch := range x.Children {
					for t, v := range ch.Max {
						if m, ok := q.Max[t]; ok && v > m {
							ch.Max[t] = m
						}
					}
					for t, v := range ch.Guar {
						if m, ok := q.Max[t]; ok && v > m {
							ch.Guar[t] = m
						}
					}
					clamp(ch)
				}
			}
			clamp(q)
			for t, v := range q.Guar {
				if m, ok := q.Max[t]; ok && v > m {
					q.Guar[t] = m
				}
			}
			if q.Props == nil {
				q.Props = map[string]string{}
			}
			q.Props["quota.preemption.delay"] = pick(r, []string{"1s", "1s", "10s"})
			s.probe("directed_lower_max_below_usage")
			n = 0
		}
	}
	// directed: an existing maximum gains (or loses) one explicit zero and changes in nothing else
	if r.Bool(0.12) {
		var withMax []string
		for _, path := range c.allQueues() {
			if q := c.Find(path); path != "root" && len(q.Max) > 0 {
				withMax = append(withMax, path)
			}
		}
		if len(withMax) > 0 {
			q := c.Find(pick(r, withMax))
			flipped := false
			for _, t := range resTypes {
				if v, ok := q.Max[t]; ok && v == 0 && r.Bool(0.5) {
					delete(q.Max, t)
					flipped = true
					break
				}
			}
			if !flipped {
				for _, t := range []string{"gpu", "memory", "vcore"} {
					if _, ok := q.Max[t]; !ok {
						q.Max[t] = 0
						break
					}
				}
			}
			s.probe("reload_explicit_zero_max")
			n = r.Range(0, 1)
		}
	}
	// directed: a queue below this parent is draining already, now the parent leaves the configuration as well
	if s.post != nil && r.Bool(0.25) {
		for _, path := range sortedKeys(s.post.Queues) {
			cq := s.post.Queues[path]
			if cq.Status != "Draining" || cq.Parent == "" || cq.Parent == "root" {
				continue
			}
			pq := c.Find(cq.Parent)
			gp := c.parentOf(cq.Parent)
			if pq == nil || gp == nil || len(gp.Children) <= 1 {
				continue
			}
			var keep []*QSpec
			for _, ch := range gp.Children {
				if ch != pq {
					keep = append(keep, ch)
				}
			}
			gp.Children = keep
			s.probe("directed_remove_parent_of_draining")
			n = 0
			break
		}
	}
	// directed: a parent with live applications below it is redefined as a leaf
	if s.post != nil && r.Bool(0.12) {
		var busy []string
		for _, path := range sortedKeys(s.post.Queues) {
			q := c.Find(path)
			if q == nil || path == "root" || q.IsLeaf() {
				continue
			}
			if par := c.parentOf(path); par == nil || len(par.Children) < 2 {
				continue
			}
			for _, id := range sortedKeys(s.post.Apps) {
				if a := s.post.Apps[id]; strings.HasPrefix(a.Queue, path+".") && !terminalState(a.State) {
					busy = append(busy, path)
					break
				}
			}
		}
		if len(busy) > 0 {
			q := c.Find(pick(r, busy))
			q.Children = nil
			q.Parent = false
			s.probe("reload_parent_to_leaf")
			s.probe("directed_flip_busy_parent")
			n = r.Range(0, 1)
		}
	}
	for i := 0; i < n; i++ {
		qs := c.allQueues()
		path := pick(r, qs)
		q := c.Find(path)
		switch r.Intn(16) {
		case 0, 1: // change the maximum
			if path == "root" {
				continue
			}
			pm := c.effMax(path[:strings.LastIndex(path, ".")])
			old := q.Max
			if r.Bool(0.25) {
				q.Max = nil
			} else {
				q.Max = genRes(r, 1, 12, 0.7)
				for k, v := range q.Max {
					if m, ok := pm[k]; ok && v > m {
						q.Max[k] = m
					}
				}
				if len(q.Max) == 0 {
					q.Max = nil
				}
			}
			if r.Bool(0.3) && old != nil {
				// the old maximum with one explicit zero added (or taken away): forbidden versus unlimited
				q.Max = old.Clone()
				flipped := false
				for _, t := range resTypes {
					if v, ok := q.Max[t]; ok && v == 0 {
						delete(q.Max, t)
						flipped = true
						break
					}
				}
				if !flipped {
					for _, t := range resTypes {
						if _, ok := q.Max[t]; !ok {
							q.Max[t] = 0
							break
						}
					}
				}
				s.probe("reload_explicit_zero_max")
			}
			// guarantees must stay inside
			for k, v := range q.Guar {
				if m, ok := q.Max[k]; ok && v > m {
					q.Guar[k] = m
				}
			}
		case 2: // properties
			q.Props = genProps(r, Profile{Fair: 0.5, PriorityProps: 0.5, Preemption: s.pf.Preemption, QuotaPreempt: s.pf.QuotaPreempt}, q.IsLeaf())
		case 3, 4, 5: // limits; or the child template of a parent leaves the configuration
			if q.Template != nil && !q.IsLeaf() && r.Bool(0.6) {
				q.Template = nil
				s.probe("reload_template_dropped")
				continue
			}
			if r.Bool(0.3) {
				q.Limits = nil
			} else {
				q.Limits = genLimits(r, s.pf, c.effMax(path), q.MaxApps, c.inheritedLimits(path))
			}
			// children may now be looser than this queue: drop what no longer fits, the validator decides
		case 6: // remove a leaf (it becomes draining) - remember it so that it can come back
			if path == "root" || !q.IsLeaf() {
				continue
			}
			par := c.parentOf(path)
			if par == nil || len(par.Children) <= 1 {
				continue
			}
			var keep []*QSpec
			for _, ch := range par.Children {
				if ch != q {
					keep = append(keep, ch)
				}
			}
			par.Children = keep
			s.graveyard[path] = q.clone()
		case 7: // a removed queue comes back
			for _, gp := range sortedKeys(s.graveyard) {
				par := c.parentOf(gp)
				if par != nil && c.Find(gp) == nil {
					par.Children = append(par.Children, s.graveyard[gp].clone())
					delete(s.graveyard, gp)
					break
				}
			}
		case 8: // a new leaf
			if q.IsLeaf() && path != "root" {
				continue
			}
			name := pick(r, []string{"n1", "n2", "n3", "dyn1", "ns1"})
			if c.Find(path+"."+name) != nil {
				continue
			}
			nq := &QSpec{Name: name, Upper: r.Bool(0.2)}
			if q.MaxApps != 0 {
				nq.MaxApps = uint64(r.Range(1, int(q.MaxApps)))
			}
			q.Children = append(q.Children, nq)
		case 9: // max applications
			if path == "root" {
				continue
			}
			par := c.parentOf(path)
			if par != nil && par.MaxApps != 0 {
				q.MaxApps = uint64(r.Range(1, int(par.MaxApps)))
			} else if len(q.Children) == 0 {
				q.MaxApps = uint64(r.Range(0, 4))
			}
		case 10: // guaranteed
			if path == "root" || !q.IsLeaf() {
				continue
			}
			if r.Bool(0.4) {
				q.Guar = nil
			} else {
				g := genRes(r, 1, 5, 0.7)
				em := c.effMax(path)
				for k, v := range g {
					if m, ok := em[k]; ok && v > m {
						g[k] = m
					}
				}
				q.Guar = g
				// parents with an own guarantee must cover the sum: simplest is to drop theirs
				for _, ap := range ancestors(path) {
					if aq := c.Find(ap); aq != nil && aq != q {
						aq.Guar = nil
					}
				}
			}
		case 12: // a parent is redefined as a leaf: all its children leave the configuration
			if path == "root" || q.IsLeaf() {
				continue
			}
			for _, ch := range q.Children {
				if ch.IsLeaf() {
					s.graveyard[path+"."+ch.Name] = ch.clone()
				}
			}
			q.Children = nil
			q.Parent = false
			s.probe("reload_parent_to_leaf")
		case 13: // a leaf is redefined as a parent
			if path == "root" || !q.IsLeaf() {
				continue
			}
			nq := &QSpec{Name: pick(r, []string{"n1", "n2", "a"})}
			if q.MaxApps != 0 {
				nq.MaxApps = uint64(r.Range(1, int(q.MaxApps)))
			}
			q.Children = append(q.Children, nq)
			q.Guar = nil
			s.probe("reload_leaf_to_parent")
		case 15: // a parent leaves the configuration with everything below it
			if path == "root" || q.IsLeaf() {
				continue
			}
			par := c.parentOf(path)
			if par == nil || len(par.Children) <= 1 {
				continue
			}
			var keep []*QSpec
			for _, ch := range par.Children {
				if ch != q {
					keep = append(keep, ch)
				}
			}
			par.Children = keep
			s.probe("reload_subtree_removed")
		case 14: // access control lists
			if path == "root" {
				// keep root as generated: closing it would only make every later submission fail
				continue
			}
			if r.Bool(0.5) {
				q.SubmitACL = pick(r, []string{"", "alice", "alice,bob dev", " ops", "*"})
			} else {
				q.AdminACL = pick(r, []string{"", "carol", " qa", "bob dev"})
			}
			s.probe("reload_acl_change")
		case 11: // partition level settings
			switch r.Intn(3) {
			case 0:
				c.NodeSort = pick(r, []string{"fair", "binpacking", ""})
			case 1:
				b := r.Bool(0.5)
				c.Preemption = &b
			case 2:
				if len(c.Rules) > 0 {
					c.Rules = genRules(r, c)
				}
			}
		}
	}
	return c
}

// breakConf makes a configuration that validation must reject.
func (s *Sim) breakConf() (string, string) {
	r := s.rng
	c := s.conf.Clone()
	leaves := c.Leaves()
	if len(leaves) == 0 {
		return "partitions:\n  - name: default\n    queues:\n      - name: root\n        queues:\n          - name: \"not a name!\"\n", "invalid queue name"
	}
	switch r.Intn(8) {
	case 6: // sparse vectors: the child exceeds the parent on one type and also names types the parent leaves open
		for _, p := range c.allQueues() {
			q := c.Find(p)
			if p != "root" && len(q.Children) > 0 {
				q.Max = Res{"memory": 3}
				q.Children[0].Max = Res{"memory": 9, "vcore": 2, "gpu": 1}
				q.Children[0].Guar = nil
				return c.YAML(), "child maximum above parent maximum (sparse)"
			}
		}
		q := c.Find(pick(r, leaves))
		q.Max = Res{"vcore": 2}
		q.Guar = Res{"vcore": 5, "memory": 1}
		return c.YAML(), "guaranteed above maximum (sparse)"
	case 7: // max applications growing downwards
		for _, p := range c.allQueues() {
			q := c.Find(p)
			if p != "root" && len(q.Children) > 0 {
				q.MaxApps = 2
				q.Children[0].MaxApps = 5
				return c.YAML(), "child max applications above parent"
			}
		}
		q := c.Find(pick(r, leaves))
		q.Limits = []LimitSpec{{Users: []string{"alice"}, MaxApps: 0}}
		return c.YAML(), "limit without any setting"
	case 0: // guaranteed above maximum
		q := c.Find(pick(r, leaves))
		q.Max = Res{"vcore": 2}
		q.Guar = Res{"vcore": 5}
		return c.YAML(), "guaranteed above maximum"
	case 1: // duplicate child
		par := c.Root
		par.Children = append(par.Children, par.Children[0].clone())
		return c.YAML(), "duplicate queue name"
	case 2: // child maximum above parent maximum
		for _, p := range c.allQueues() {
			q := c.Find(p)
			if p != "root" && len(q.Children) > 0 {
				q.Max = Res{"memory": 3}
				q.Children[0].Max = Res{"memory": 9}
				return c.YAML(), "child maximum above parent maximum"
			}
		}
		q := c.Find(pick(r, leaves))
		q.Name = "bad name!"
		return c.YAML(), "invalid queue name"
	case 3: // rule to a queue that does not exist, no create
		c.Rules = []RuleSpec{{Name: "fixed", Value: "root.does.not.exist"}}
		return c.YAML(), "fixed rule to a missing queue without create"
	case 4: // user limit above the queue maximum
		q := c.Find(pick(r, leaves))
		q.Max = Res{"memory": 4}
		q.Limits = []LimitSpec{{Users: []string{"alice"}, MaxRes: Res{"memory": 40}}}
		return c.YAML(), "user limit above queue maximum"
	default:
		return "partitions:\n  - name: default\n    queues:\n      - name: root\n        queues:\n          - name: \"not a name!\"\n", "invalid queue name"
	}
}

func (s *Sim) genReload() (Op, bool) {
	if s.faultOn("reload_invalid") && s.rng.Bool(0.3) {
		raw, why := s.breakConf()
		s.faults["reload_invalid"]++
		return Op{Kind: "reload", Raw: raw, Fault: "invalid: " + why}, true
	}
	for try := 0; try < 8; try++ {
		c := s.mutateConf()
		if c.YAML() == s.conf.YAML() {
			continue
		}
		if msg := c.RuleCheck(); msg != "" {
			// the change broke a hierarchy rule: worth sending only to see it refused
			if s.faultOn("reload_invalid") && s.rng.Bool(0.5) {
				s.faults["reload_invalid"]++
				return Op{Kind: "reload", Conf: c, Fault: "invalid: rule " + strings.SplitN(msg, ":", 2)[0]}, true
			}
			continue
		}
		if err := c.Validate(); err != nil {
			s.probe("reload_validator_stricter_than_rules")
			continue
		}
		s.faults["reload_valid"]++
		return Op{Kind: "reload", Conf: c}, true
	}
	return Op{}, false
}

// execReload sends the configuration and records the verdict. Runs on the driver goroutine.
func (s *Sim) execReload(op Op) {
	text := op.Raw
	if op.Conf != nil {
		text = op.Conf.YAML()
	}
	_, verr := configs.LoadSchedulerConfigFromByteArray([]byte(text))
	err := s.sc.RMProxy.UpdateConfiguration(&si.UpdateConfigurationRequest{RmID: s.shim.rmID, PolicyGroup: "sim", Config: text, ExtraConfig: s.extraConfig()})
	s.lastReload = reloadResult{accepted: err == nil, validatorOK: verr == nil, err: err, conf: op.Conf, text: text}
	if err == nil {
		s.reloadsOK++
		if op.Conf != nil {
			// queues that leave the configuration keep existing (draining) with what they had
			old := s.conf
			for _, path := range old.allQueues() {
				if op.Conf.Find(path) == nil {
					g := old.Find(path).clone()
					g.Children = nil
					s.ghosts[path] = g
				}
			}
			for _, path := range op.Conf.allQueues() {
				delete(s.ghosts, path)
			}
			s.conf = op.Conf.Clone()
		}
		s.probe("reload_accepted")
	} else {
		s.reloadsRej++
		s.probe("reload_rejected")
	}
}

type reloadResult struct {
	accepted    bool
	validatorOK bool
	err         error
	conf        *ConfSpec
	text        string
}

// effProps: the properties a configured queue must report: own ones over the filtered ones of its parent.
func (c *ConfSpec) effProps(path string) map[string]string {
	out := map[string]string{}
	for _, qp := range ancestors(path) {
		q := c.Find(qp)
		if q == nil {
			return out
		}
		// what comes from above is filtered at every level
		for k, v := range out {
			switch k {
			case "priority.policy":
				out[k] = "default"
			case "priority.offset":
				out[k] = "0"
			case "preemption.policy":
				if v != "disabled" {
					out[k] = "default"
				}
			}
		}
		for k, v := range q.Props {
			out[k] = v
		}
	}
	return out
}

// ---- C16 (and the state dependent clause of C15) -------------------------------------------------------

func (s *Sim) oracleC16(op Op, evs []SIEvent) {
	p := s.post
	for _, path := range sortedKeys(s.ghosts) {
		if p.Queues[path] == nil {
			delete(s.ghosts, path)
		}
	}
	if op.Kind == "reload" && s.pre != nil {
		lr := s.lastReload
		if lr.validatorOK && !lr.accepted {
			s.violate("C15", "accepted-config-not-loadable", "reload", "validation accepts the configuration but loading it into the running scheduler failed: %v", lr.err)
		}
		if !lr.validatorOK && lr.accepted {
			s.violate("C15", "rejected-config-loaded", "", "validation rejects the configuration (%s) but the running scheduler loaded it", op.Fault)
		}
		if op.Conf != nil && lr.validatorOK {
			if msg := op.Conf.RuleCheck(); msg != "" {
				s.violate("C15", "accepted-config-breaks-rule", strings.SplitN(msg, ":", 2)[0], "validation accepts a configuration that breaks a hierarchy rule: %s", msg)
			} else {
				s.probe("accepted_config_rule_checked")
			}
		}
		if why, ok := strings.CutPrefix(op.Fault, "invalid: "); ok && lr.validatorOK && op.Conf == nil {
			switch why {
			case "fixed rule to a missing queue without create", "limit without any setting":
				// not among the hierarchy rules the statement lists
				s.probe("unlisted_rule_break_accepted")
			default:
				// the document breaks a documented hierarchy rule by construction
				f := strings.Fields(why)
				s.violate("C15", "invalid-config-accepted", f[0]+"-"+f[1], "validation accepts a configuration that breaks a hierarchy rule (%s)", why)
			}
		}
		// the verdict does not depend on anything but the document: ask again
		for i := 0; i < 3; i++ {
			_, again := configs.LoadSchedulerConfigFromByteArray([]byte(lr.text))
			if (again == nil) != lr.validatorOK {
				s.violate("C15", "validation-not-deterministic", "", "the same document was accepted=%v and then accepted=%v by validation", lr.validatorOK, again == nil)
				break
			}
		}
		s.probe("config_loaded")
		if lr.accepted && op.Conf != nil {
			s.checkACLState("after-reload")
		}
		if !lr.accepted {
			// nothing observable changes
			if d := diffSnap(s.pre, p, true); d != "" {
				s.violate("C16", "rejected-reload-changed-state", "", "a reload that was rejected (%v) changed: %s", lr.err, d)
			}
		} else {
			// applications, allocations, reservations, queue totals are untouched
			if d := diffSnap(s.pre, p, false); d != "" {
				s.violate("C16", "accepted-reload-changed-running-state", "", "an accepted reload changed: %s", d)
			}
			// queues missing from the new configuration are draining, not gone, unless they were empty... they are
			// only ever removed by the cleaner, so right after the reload every managed queue of the old tree still exists
			for _, path := range sortedKeys(s.pre.Queues) {
				pq := s.pre.Queues[path]
				q := p.Queues[path]
				if q == nil {
					if pq.Managed {
						s.violate("C16", "queue-vanished-on-reload", "", "managed queue %s disappeared during the reload itself (removal is the cleaner's job, once empty)", path)
					}
					continue
				}
				inConf := s.conf.Find(path) != nil
				if pq.Managed && !inConf && q.Status != "Draining" {
					s.violate("C16", "removed-queue-not-draining", q.Status, "queue %s is not in the new configuration but reports state %s", path, q.Status)
				}
			}
		}
	}
	// at every quiescent point: every configured queue reports the limits and properties of the latest accepted text
	s.conf.Root.walk("", func(path string, spec *QSpec, _ *QSpec) {
		q := p.Queues[path]
		if q == nil {
			s.violate("C16", "configured-queue-missing", "", "queue %s is in the active configuration but does not exist", path)
			return
		}
		if q.Status != "Active" {
			s.violate("C16", "configured-queue-not-active", q.Status, "queue %s is in the active configuration but reports state %s", path, q.Status)
		}
		if !q.Managed {
			s.violate("C16", "configured-queue-unmanaged", "", "queue %s is in the active configuration but reports as unmanaged (dynamic)", path)
		}
		if path != "root" {
			wantMax := spec.Max
			if wantMax == nil || wantMax.IsZero() {
				// a maximum without any positive quantity is no maximum at all (the core ignores it)
				wantMax = Res{}
			}
			// a maximum names its types: "gpu: 0" forbids the type, leaving it out does not limit it
			sameTypes := len(q.Max) == len(wantMax)
			for t := range wantMax {
				if _, ok := q.Max[t]; !ok {
					sameTypes = false
				}
			}
			if !q.Max.Eq(wantMax) || !sameTypes || (len(wantMax) > 0) != q.HasMax && len(wantMax) > 0 {
				s.violate("C16", "queue-max", "", "queue %s reports maximum %s, the active configuration says %s", path, q.Max, spec.Max)
			}
			wantG := spec.Guar
			if wantG == nil {
				wantG = Res{}
			}
			if !q.Guar.Eq(wantG) {
				s.violate("C16", "queue-guaranteed", "", "queue %s reports guaranteed %s, the active configuration says %s", path, q.Guar, spec.Guar)
			}
			if q.MaxApps != spec.MaxApps {
				s.violate("C16", "queue-maxapps", "", "queue %s reports max applications %d, the active configuration says %d", path, q.MaxApps, spec.MaxApps)
			}
		}
		// the child template is part of what the configuration defines for a parent
		if !spec.IsLeaf() {
			// (a parent created under a parent that has a template starts with that one: not stale)
			inherited := false
			if q.Template != nil {
				for _, ap := range ancestors(path) {
					if aq := p.Queues[ap]; ap != path && aq != nil && aq.Template != nil && fmt.Sprintf("%+v", *aq.Template) == fmt.Sprintf("%+v", *q.Template) {
						inherited = true
					}
				}
			}
			if spec.Template == nil && q.Template != nil && !inherited {
				s.violate("C16", "queue-template-stale", "", "queue %s reports a child template (%+v), the active configuration gives it none", path, *q.Template)
			}
			if spec.Template != nil && spec.Template.MaxApps > 0 {
				s.probe("template_checked")
				if q.Template == nil || q.Template.MaxApplications != spec.Template.MaxApps {
					s.violate("C16", "queue-template", "maxapps", "queue %s reports child template %+v, the active configuration says max applications %d", path, q.Template, spec.Template.MaxApps)
				}
			}
		}
		if q.Leaf != (spec.IsLeaf() && len(spec.Children) == 0) {
			s.violate("C16", "queue-type", "", "queue %s reports leaf=%v, the active configuration says leaf=%v", path, q.Leaf, spec.IsLeaf())
		}
		want := s.conf.effProps(path)
		for _, k := range sortedKeys(want) {
			if q.Props[k] != want[k] {
				s.violate("C16", "queue-property", k, "queue %s reports property %s=%q, the active configuration (with inheritance) says %q", path, k, q.Props[k], want[k])
			}
		}
		for _, k := range sortedKeys(q.Props) {
			if _, ok := want[k]; !ok {
				s.violate("C16", "queue-property-stale", k, "queue %s reports property %s=%q which the active configuration does not give it", path, k, q.Props[k])
			}
		}
	})
	// queues disappear only when empty: compare with the previous quiescent point
	if s.pre != nil {
		for _, path := range sortedKeys(s.pre.Queues) {
			pq := s.pre.Queues[path]
			if _, still := p.Queues[path]; still {
				continue
			}
			// several things can happen in one step (a clock advance): judge by what is still there afterwards
			var left []string
			for _, id := range sortedKeys(p.Apps) {
				a := p.Apps[id]
				if (a.Queue == path || strings.HasPrefix(a.Queue, path+".")) && !terminalState(a.State) {
					left = append(left, id)
				}
			}
			if len(left) > 0 {
				s.violate("C16", "non-empty-queue-removed", "", "queue %s was removed while applications %v are still live in it", path, left)
			} else {
				s.probe("empty_queue_removed")
			}
			_ = pq
		}
	}
	// a draining leaf takes no new applications
	for _, e := range evs {
		if e.Kind != "appAccepted" {
			continue
		}
		a := p.Apps[e.App]
		if a == nil || s.pre == nil {
			continue
		}
		if pq := s.pre.Queues[a.Queue]; pq != nil && pq.Status == "Draining" {
			if q := p.Queues[a.Queue]; q != nil && q.Status == "Draining" {
				s.violate("C16", "draining-queue-took-application", "", "application %s was accepted into queue %s which is draining", e.App, a.Queue)
			}
		}
	}
}

// diffSnap compares what a reload must not touch. full: also queue settings (rejected reload).
func diffSnap(a, b *Snap, full bool) string {
	var d []string
	for _, id := range sortedKeys(a.Apps) {
		x, y := a.Apps[id], b.Apps[id]
		if y == nil {
			d = append(d, "application "+id+" vanished")
			continue
		}
		if x.State != y.State || !x.Alloc.Eq(y.Alloc) || !x.Pending.Eq(y.Pending) || !x.PhAlloc.Eq(y.PhAlloc) || x.Queue != y.Queue ||
			len(x.Allocs) != len(y.Allocs) || x.pendingAsks() != y.pendingAsks() || len(x.Reservations) != len(y.Reservations) {
			d = append(d, fmt.Sprintf("application %s: state %s->%s alloc %s->%s pending %s->%s allocations %d->%d asks %d->%d reservations %d->%d",
				id, x.State, y.State, x.Alloc, y.Alloc, x.Pending, y.Pending, len(x.Allocs), len(y.Allocs), x.pendingAsks(), y.pendingAsks(), len(x.Reservations), len(y.Reservations)))
		}
	}
	for _, id := range sortedKeys(b.Apps) {
		if a.Apps[id] == nil {
			d = append(d, "application "+id+" appeared")
		}
	}
	for _, id := range sortedKeys(a.Nodes) {
		x, y := a.Nodes[id], b.Nodes[id]
		if y == nil {
			d = append(d, "node "+id+" vanished")
			continue
		}
		if !x.Alloc.Eq(y.Alloc) || !x.Cap.Eq(y.Cap) || len(x.Reserved) != len(y.Reserved) || x.Schedulable != y.Schedulable {
			d = append(d, fmt.Sprintf("node %s: alloc %s->%s reservations %d->%d", id, x.Alloc, y.Alloc, len(x.Reserved), len(y.Reserved)))
		}
	}
	for _, path := range sortedKeys(a.Queues) {
		x, y := a.Queues[path], b.Queues[path]
		if y == nil {
			if full {
				d = append(d, "queue "+path+" vanished")
			}
			continue
		}
		if !x.Alloc.Eq(y.Alloc) || !x.Pending.Eq(y.Pending) {
			d = append(d, fmt.Sprintf("queue %s: allocated %s->%s pending %s->%s", path, x.Alloc, y.Alloc, x.Pending, y.Pending))
		}
		if full {
			if !x.Max.Eq(y.Max) || !x.Guar.Eq(y.Guar) || x.MaxApps != y.MaxApps || x.Status != y.Status || x.Leaf != y.Leaf || x.Managed != y.Managed || fmt.Sprint(x.Props) != fmt.Sprint(y.Props) {
				d = append(d, fmt.Sprintf("queue %s: settings max %s->%s guaranteed %s->%s maxapps %d->%d state %s->%s leaf %v->%v props %v->%v", path, x.Max, y.Max, x.Guar, y.Guar, x.MaxApps, y.MaxApps, x.Status, y.Status, x.Leaf, y.Leaf, x.Props, y.Props))
			}
		}
	}
	if full {
		for _, path := range sortedKeys(b.Queues) {
			if a.Queues[path] == nil {
				d = append(d, "queue "+path+" appeared")
			}
		}
	}
	if len(d) > 4 {
		d = append(d[:4], fmt.Sprintf("... and %d more", len(d)-4))
	}
	return strings.Join(d, "; ")
}

// pendingAsks: outstanding (unallocated) asks; request entries of allocated asks are bookkeeping only.
func (a *AppSnap) pendingAsks() int {
	n := 0
	for _, ask := range a.Asks {
		if !ask.Allocated {
			n++
		}
	}
	return n
}
