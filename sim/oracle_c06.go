package sim

// ---- C06: gang scheduling ------------------------------------------------------------------------------

type gangWatch struct {
	style     string
	firedStep int
	clearStep int // first step at which no confirmation was owed for the application any more (0: still owed)
	hadReal   bool
}

func (s *Sim) oracleC06(op Op, evs []SIEvent) {
	p := s.post
	if s.gang == nil {
		s.gang = map[string]*gangWatch{}
	}
	// every announced replacement: same application, same task group, real ask no larger than the placeholder
	for _, e := range evs {
		if e.Kind != "released" || e.Type != "PLACEHOLDER_REPLACED" {
			continue
		}
		ph := s.shim.Allocs[e.Key]
		if ph == nil {
			continue
		}
		s.probe("placeholder_replaced")
		if !ph.Placeholder {
			s.violate("C06", "replaced-not-a-placeholder", "", "PLACEHOLDER_REPLACED announced for %s which is not a placeholder", e.Key)
			continue
		}
		app := p.Apps[e.App]
		if app == nil {
			continue
		}
		cph := app.Allocs[e.Key]
		if cph == nil || cph.ReleaseKey == "" {
			// repeated announcement of an old swap, or already processed
			continue
		}
		real := s.shim.Allocs[cph.ReleaseKey]
		if real == nil {
			s.violate("C06", "replacement-unknown-ask", "", "placeholder %s is being replaced by %s which the shim never submitted", e.Key, cph.ReleaseKey)
			continue
		}
		if real.App != ph.App {
			s.violate("C06", "replacement-other-application", "", "placeholder %s of %s is being replaced by ask %s of %s", e.Key, ph.App, real.Key, real.App)
		}
		if real.TaskGroup != ph.TaskGroup {
			s.violate("C06", "replacement-other-task-group", "", "placeholder %s (task group %q) is being replaced by ask %s (task group %q)", e.Key, ph.TaskGroup, real.Key, real.TaskGroup)
		}
		if real.Placeholder {
			s.violate("C06", "replacement-by-placeholder", "", "placeholder %s is being replaced by another placeholder %s", e.Key, real.Key)
		}
		if !real.Res.FitsIn(ph.Res) {
			s.violate("C06", "replacement-larger", "", "placeholder %s %s is being replaced by ask %s %s which is larger", e.Key, ph.Res, real.Key, real.Res)
		}
	}
	// the confirmation of a swap: the placeholder is gone, usage did not grow anywhere
	if op.Kind == "confirm" && op.Type == "PLACEHOLDER_REPLACED" && s.pre != nil && op.Fault == "" {
		if a := p.Apps[op.AppID]; a != nil {
			if _, still := a.Allocs[op.Key]; still {
				if pa := s.pre.Apps[op.AppID]; pa != nil && pa.Allocs[op.Key] != nil && pa.Allocs[op.Key].ReleaseKey != "" {
					s.violate("C06", "placeholder-survives-confirmation", "", "the shim confirmed the replacement of %s but the application still lists it", op.Key)
				}
			}
		}
		for _, nid := range sortedKeys(p.Nodes) {
			if pn := s.pre.Nodes[nid]; pn != nil {
				if _, still := p.Nodes[nid].Allocs[op.Key]; still {
					if pa := pn.Allocs[op.Key]; pa != nil && pa.ReleaseKey != "" {
						s.violate("C06", "placeholder-survives-confirmation", "node", "the shim confirmed the replacement of %s but node %s still holds it", op.Key, nid)
					}
				}
				if !p.Nodes[nid].Alloc.FitsIn(pn.Alloc) {
					s.violate("C06", "swap-increased-node-usage", "", "confirming the replacement of %s took node %s from %s to %s", op.Key, nid, pn.Alloc, p.Nodes[nid].Alloc)
				}
			}
		}
		for _, path := range sortedKeys(p.Queues) {
			if pq := s.pre.Queues[path]; pq != nil && !p.Queues[path].Alloc.FitsIn(pq.Alloc) {
				s.violate("C06", "swap-increased-queue-usage", "", "confirming the replacement of %s took queue %s from %s to %s", op.Key, path, pq.Alloc, p.Queues[path].Alloc)
			}
		}
	}
	// replaced never exceeds the number of placeholders of the task group
	for _, id := range sortedKeys(p.Apps) {
		a := p.Apps[id]
		for _, tg := range sortedKeys(a.Ph) {
			d := a.Ph[tg]
			if d.Replaced > d.Count {
				s.violate("C06", "replaced-above-count", "", "application %s task group %s reports %d replaced of %d placeholders", id, tg, d.Replaced, d.Count)
			}
			if d.Replaced+d.TimedOut > d.Count {
				s.probe("replaced_plus_timedout_above_count")
			}
		}
	}
	// placeholder timeout
	for _, e := range evs {
		if e.Kind != "appUpdated" {
			continue
		}
		app := s.shim.Apps[e.App]
		if app == nil || !app.Gang {
			continue
		}
		if (e.Type == "Failing" || e.Type == "Resuming") && e.Msg == "ResourceReservationTimeout" {
			s.probe("placeholder_timeout")
			if s.gang[e.App] == nil {
				s.gang[e.App] = &gangWatch{style: app.GangStyle, firedStep: s.step}
			}
			if e.Type == "Failing" && app.GangStyle != "Hard" {
				s.violate("C06", "timeout-wrong-outcome", "soft-failed", "Soft gang application %s was failed by the placeholder timeout", e.App)
			}
			if e.Type == "Resuming" && app.GangStyle == "Hard" {
				s.violate("C06", "timeout-wrong-outcome", "hard-resumed", "Hard gang application %s resumed after the placeholder timeout", e.App)
			}
		}
	}
	owedFor := map[string]bool{}
	for _, o := range s.shim.Owed {
		owedFor[o.App] = true
	}
	for _, id := range sortedKeys(s.gang) {
		w := s.gang[id]
		if owedFor[id] {
			w.clearStep = 0
			continue
		}
		if w.clearStep == 0 {
			w.clearStep = s.step
		}
		if s.step-w.clearStep < 50 && !s.drained {
			continue
		}
		// bounded liveness: faults stopped for this application, everything owed was delivered long ago
		left := 0
		if a := p.Apps[id]; a != nil {
			for _, al := range a.Allocs {
				if al.Placeholder {
					left++
				}
			}
			for _, ask := range a.Asks {
				if ask.Placeholder && !ask.Allocated {
					left++
				}
			}
		}
		for _, n := range p.Nodes {
			for _, al := range n.Allocs {
				if al.App == id && al.Placeholder {
					left++
				}
			}
		}
		if left > 0 {
			s.violate("C06", "placeholders-remain-after-timeout", w.style, "%s gang application %s timed out at step %d, nothing has been owed since step %d, but %d placeholder allocations/asks remain", w.style, id, w.firedStep, w.clearStep, left)
			delete(s.gang, id)
		}
	}
	// no placeholder outlives its application
	for _, nid := range sortedKeys(p.Nodes) {
		for _, k := range sortedKeys(p.Nodes[nid].Allocs) {
			al := p.Nodes[nid].Allocs[k]
			if al.Placeholder && p.Apps[al.App] == nil {
				s.violate("C06", "placeholder-outlives-application", "", "node %s still holds placeholder %s of application %s which is gone", nid, k, al.App)
			}
		}
	}
}
