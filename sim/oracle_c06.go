package sim

// ---- C06: gang scheduling ------------------------------------------------------------------------------

type gangWatch struct {
	style     string
	firedStep int
	clearStep int // first step at which no confirmation was owed for the application any more (0: still owed)
	hadReal   bool
	hadAlloc  bool // an allocated placeholder existed when the timeout fired: its removal is what resumes a Soft application
}

func (s *Sim) oracleC06(op Op, evs []SIEvent) {
	p := s.post
	if s.gang == nil {
		s.gang = map[string]*gangWatch{}
	}
	// every announced replacement: same application, same task group, real ask no larger than the placeholder
	for _, e := range evs {
		if e.Kind != "released" || e.Type != "PLACEHOLDER_REPLACED" {
			continue
		}
		ph := s.shim.Allocs[e.Key]
		if ph == nil {
			continue
		}
		s.probe("placeholder_replaced")
		if !ph.Placeholder {
			s.violate("C06", "replaced-not-a-placeholder", "", "PLACEHOLDER_REPLACED announced for %s which is not a placeholder", e.Key)
			continue
		}
		app := p.Apps[e.App]
		if app == nil {
			continue
		}
		cph := app.Allocs[e.Key]
		if cph == nil || cph.ReleaseKey == "" {
			// repeated announcement of an old swap, or already processed
			continue
		}
		real := s.shim.Allocs[cph.ReleaseKey]
		if real == nil {
			s.violate("C06", "replacement-unknown-ask", "", "placeholder %s is being replaced by %s which the shim never submitted", e.Key, cph.ReleaseKey)
			continue
		}
		if real.App != ph.App {
			s.violate("C06", "replacement-other-application", "", "placeholder %s of %s is being replaced by ask %s of %s", e.Key, ph.App, real.Key, real.App)
		}
		if real.TaskGroup != ph.TaskGroup {
			s.violate("C06", "replacement-other-task-group", "", "placeholder %s (task group %q) is being replaced by ask %s (task group %q)", e.Key, ph.TaskGroup, real.Key, real.TaskGroup)
		}
		if real.Placeholder {
			s.violate("C06", "replacement-by-placeholder", "", "placeholder %s is being replaced by another placeholder %s", e.Key, real.Key)
		}
		if !real.Res.FitsIn(ph.Res) {
			s.violate("C06", "replacement-larger", "", "placeholder %s %s is being replaced by ask %s %s which is larger", e.Key, ph.Res, real.Key, real.Res)
		}
	}
	// the confirmation of a swap: the placeholder is gone, usage did not grow anywhere
	if op.Kind == "confirm" && op.Type == "PLACEHOLDER_REPLACED" && s.pre != nil && op.Fault == "" && !s.cfg.Auto {
		if a := p.Apps[op.AppID]; a != nil {
			if _, still := a.Allocs[op.Key]; still {
				if pa := s.pre.Apps[op.AppID]; pa != nil && pa.Allocs[op.Key] != nil && pa.Allocs[op.Key].ReleaseKey != "" {
					s.violate("C06", "placeholder-survives-confirmation", "", "the shim confirmed the replacement of %s but the application still lists it", op.Key)
				}
			}
		}
		for _, nid := range sortedKeys(p.Nodes) {
			if pn := s.pre.Nodes[nid]; pn != nil {
				if _, still := p.Nodes[nid].Allocs[op.Key]; still {
					if pa := pn.Allocs[op.Key]; pa != nil && pa.ReleaseKey != "" {
						s.violate("C06", "placeholder-survives-confirmation", "node", "the shim confirmed the replacement of %s but node %s still holds it", op.Key, nid)
					}
				}
				if !p.Nodes[nid].Alloc.FitsIn(pn.Alloc) {
					s.violate("C06", "swap-increased-node-usage", "", "confirming the replacement of %s took node %s from %s to %s", op.Key, nid, pn.Alloc, p.Nodes[nid].Alloc)
				}
			}
		}
		for _, path := range sortedKeys(p.Queues) {
			if pq := s.pre.Queues[path]; pq != nil && !p.Queues[path].Alloc.FitsIn(pq.Alloc) {
				s.violate("C06", "swap-increased-queue-usage", "", "confirming the replacement of %s took queue %s from %s to %s", op.Key, path, pq.Alloc, p.Queues[path].Alloc)
			}
		}
	}
	// ... and reflects the real allocation: what the placeholder held beyond the real allocation is given back
	// on the queue path, the nodes involved and the user, exactly (nothing else changes usage in this step)
	if op.Kind == "confirm" && op.Type == "PLACEHOLDER_REPLACED" && s.pre != nil && op.Fault == "" && !s.cfg.Auto {
		s.swapExact(op)
	}
	// replaced never exceeds the number of placeholders of the task group
	for _, id := range sortedKeys(p.Apps) {
		a := p.Apps[id]
		for _, tg := range sortedKeys(a.Ph) {
			d := a.Ph[tg]
			if d.Replaced > d.Count {
				s.violate("C06", "replaced-above-count", "", "application %s task group %s reports %d replaced of %d placeholders", id, tg, d.Replaced, d.Count)
			}
			if d.Replaced+d.TimedOut > d.Count {
				s.probe("replaced_plus_timedout_above_count")
			}
		}
	}
	// placeholder timeout
	for _, e := range evs {
		if e.Kind != "appUpdated" {
			continue
		}
		app := s.shim.Apps[e.App]
		if app == nil || !app.Gang {
			continue
		}
		if (e.Type == "Failing" || e.Type == "Resuming") && e.Msg == "ResourceReservationTimeout" {
			s.probe("placeholder_timeout")
			if s.gang[e.App] == nil {
				w := &gangWatch{style: app.GangStyle, firedStep: s.step}
				if pa := s.pre.Apps[e.App]; pa != nil {
					for _, al := range pa.Allocs {
						if al.Placeholder {
							w.hadAlloc = true
						}
					}
				}
				s.gang[e.App] = w
			}
			if e.Type == "Failing" && app.GangStyle != "Hard" {
				s.violate("C06", "timeout-wrong-outcome", "soft-failed", "Soft gang application %s was failed by the placeholder timeout", e.App)
			}
			if e.Type == "Resuming" && app.GangStyle == "Hard" {
				s.violate("C06", "timeout-wrong-outcome", "hard-resumed", "Hard gang application %s resumed after the placeholder timeout", e.App)
			}
		}
	}
	owedFor := map[string]bool{}
	for _, o := range s.shim.Owed {
		owedFor[o.App] = true
	}
	for _, id := range sortedKeys(s.gang) {
		w := s.gang[id]
		if owedFor[id] {
			w.clearStep = 0
			continue
		}
		if w.clearStep == 0 {
			w.clearStep = s.step
		}
		if s.step-w.clearStep < 50 && !s.drained {
			continue
		}
		// bounded liveness: faults stopped for this application, everything owed was delivered long ago
		left := 0
		if a := p.Apps[id]; a != nil {
			for _, al := range a.Allocs {
				if al.Placeholder {
					left++
				}
			}
			for _, ask := range a.Asks {
				if ask.Placeholder && !ask.Allocated {
					left++
				}
			}
		}
		for _, n := range p.Nodes {
			for _, al := range n.Allocs {
				if al.App == id && al.Placeholder {
					left++
				}
			}
		}
		if left > 0 {
			s.violate("C06", "placeholders-remain-after-timeout", w.style, "%s gang application %s timed out at step %d, nothing has been owed since step %d, but %d placeholder allocations/asks remain", w.style, id, w.firedStep, w.clearStep, left)
			delete(s.gang, id)
			continue
		}
		// a Soft application resumes normal scheduling: once its last placeholder is gone it is back in Accepted (or
		// further), it does not stay Resuming
		if a := p.Apps[id]; a != nil && w.style != "Hard" && w.hadAlloc {
			s.probe("soft_resume_checked")
			if a.State == "Resuming" {
				s.violate("C06", "soft-not-resumed", "", "Soft gang application %s timed out at step %d, nothing has been owed since step %d, no placeholder is left, and it is still Resuming", id, w.firedStep, w.clearStep)
				delete(s.gang, id)
			}
		}
	}
	// no placeholder outlives its application
	for _, nid := range sortedKeys(p.Nodes) {
		for _, k := range sortedKeys(p.Nodes[nid].Allocs) {
			al := p.Nodes[nid].Allocs[k]
			if al.Placeholder && p.Apps[al.App] == nil {
				s.violate("C06", "placeholder-outlives-application", "", "node %s still holds placeholder %s of application %s which is gone", nid, k, al.App)
			}
		}
	}
}

// swapExact: pre and post state of the step in which the shim confirmed the replacement of placeholder op.Key.
func (s *Sim) swapExact(op Op) {
	p := s.post
	pa, a := s.pre.Apps[op.AppID], p.Apps[op.AppID]
	if pa == nil || a == nil {
		return
	}
	cph := pa.Allocs[op.Key]
	if cph == nil || cph.ReleaseKey == "" || a.Allocs[op.Key] != nil {
		return
	}
	real := a.Allocs[cph.ReleaseKey]
	if real == nil || real.Placeholder || pa.Allocs[cph.ReleaseKey] != nil {
		// the real half did not become an allocation in this step (released, removed): other clauses cover that
		return
	}
	s.probe("swap_exact_checked")
	freed := cph.Res.Sub(real.Res)
	if !freed.IsZero() {
		s.probe("swap_smaller_real")
	}
	if real.Node != cph.Node {
		s.probe("swap_other_node")
	}
	for _, path := range ancestors(a.Queue) {
		pq, q := s.pre.Queues[path], p.Queues[path]
		if pq == nil || q == nil {
			continue
		}
		if want := pq.Alloc.Sub(freed); !q.Alloc.Eq(want) {
			s.violate("C06", "swap-usage-not-real", "queue", "confirming the replacement of %s (%s) by %s (%s) took queue %s from %s to %s, expected %s", op.Key, cph.Res, real.Key, real.Res, path, pq.Alloc, q.Alloc, want)
		}
	}
	// nodes: everything held on nodes together shrinks by the placeholder and holds the real allocation once
	preSum, postSum := Res{}, Res{}
	for _, nid := range sortedKeys(p.Nodes) {
		if pn := s.pre.Nodes[nid]; pn != nil {
			preSum = preSum.Add(pn.Alloc)
			postSum = postSum.Add(p.Nodes[nid].Alloc)
		}
	}
	if n := p.Nodes[real.Node]; n != nil {
		if n.Allocs[real.Key] == nil {
			s.violate("C06", "swap-usage-not-real", "node-missing", "after the confirmed replacement of %s node %s does not hold %s", op.Key, real.Node, real.Key)
		}
	}
	wantN := preSum.Sub(freed)
	if real.Node != cph.Node {
		// the real allocation was booked on its own node when the swap was decided
		wantN = preSum.Sub(cph.Res)
	}
	if !postSum.Eq(wantN) {
		s.violate("C06", "swap-usage-not-real", "node", "confirming the replacement of %s (%s) by %s (%s) took the node total from %s to %s", op.Key, cph.Res, real.Key, real.Res, preSum, postSum)
	}
	// user: tracked usage on the queue path equals the live allocations again
	otherSwap := false
	for _, n := range p.Nodes {
		for _, al := range n.Allocs {
			if s.isInflightRealHalf(al) {
				otherSwap = true
			}
		}
	}
	if a.User != "" && !otherSwap {
		users, _ := snapUGM()
		if t := users[a.User]; t != nil {
			for _, path := range ancestors(a.Queue) {
				if t.Queues[path] == nil {
					continue
				}
				want, _ := s.userUsage(a.User, path, nil)
				if got := ResFromDAO(t.Queues[path].ResourceUsage); !got.Eq(want) {
					s.violate("C06", "swap-usage-not-real", "user", "after the confirmed replacement of %s user %s is tracked with %s on %s, its live allocations there sum to %s", op.Key, a.User, got, path, want)
				}
			}
		}
	}
}
