package sim

import (
	"fmt"
	"sort"
	"strings"

	"go.yaml.in/yaml/v3"

	"github.com/apache/yunikorn-core/pkg/common/configs"
)

// Rng is the harness' PRNG for workload generation (driver-private; one per purpose).
type Rng struct{ s uint64 }

func NewRng(seed uint64, purpose string) *Rng {
	return &Rng{s: hashStr(seed^0x243f6a8885a308d3, purpose)}
}
func (r *Rng) U64() uint64 { return splitmix(&r.s) }
func (r *Rng) Intn(n int) int {
	if n <= 0 {
		return 0
	}
	return int(r.U64() % uint64(n))
}
func (r *Rng) Range(lo, hi int) int { return lo + r.Intn(hi-lo+1) }
func (r *Rng) Float() float64       { return float64(r.U64()>>11) / float64(1<<53) }
func (r *Rng) Bool(p float64) bool  { return r.Float() < p }
func pick[T any](r *Rng, xs []T) T  { return xs[r.Intn(len(xs))] }

// ---- specification of a world: what the configuration text means, written by the generator ----

type LimitSpec struct {
	Users   []string `json:"users,omitempty"`
	Groups  []string `json:"groups,omitempty"`
	MaxRes  Res      `json:"maxres,omitempty"`
	MaxApps uint64   `json:"maxapps,omitempty"`
}

type TemplateSpec struct {
	MaxApps uint64            `json:"maxapps,omitempty"`
	Props   map[string]string `json:"props,omitempty"`
	Max     Res               `json:"max,omitempty"`
	Guar    Res               `json:"guar,omitempty"`
}

type QSpec struct {
	Name      string            `json:"name"`
	Parent    bool              `json:"parent,omitempty"` // explicit parent flag
	Max       Res               `json:"max,omitempty"`
	Guar      Res               `json:"guar,omitempty"`
	MaxApps   uint64            `json:"maxapps,omitempty"`
	Props     map[string]string `json:"props,omitempty"`
	SubmitACL string            `json:"submitacl,omitempty"`
	AdminACL  string            `json:"adminacl,omitempty"`
	Limits    []LimitSpec       `json:"limits,omitempty"`
	Template  *TemplateSpec     `json:"template,omitempty"`
	Children  []*QSpec          `json:"children,omitempty"`
	// Upper: the configuration document spells the name with an upper case first letter; queue paths are
	// case insensitive (stored lower case), so the model keeps using the lower case name
	Upper bool `json:"upper,omitempty"`
}

func (q *QSpec) docName() string {
	if q.Upper && q.Name != "" {
		return strings.ToUpper(q.Name[:1]) + q.Name[1:]
	}
	return q.Name
}

type RuleSpec struct {
	Name   string    `json:"name"`
	Create bool      `json:"create,omitempty"`
	Value  string    `json:"value,omitempty"`
	Parent *RuleSpec `json:"parent,omitempty"`
	FType  string    `json:"ftype,omitempty"`
	FUsers []string  `json:"fusers,omitempty"`
	FGroup []string  `json:"fgroups,omitempty"`
}

type ConfSpec struct {
	Root            *QSpec             `json:"root"`
	Rules           []RuleSpec         `json:"rules,omitempty"`
	NodeSort        string             `json:"nodesort,omitempty"`
	NodeSortWeights map[string]float64 `json:"nodesortweights,omitempty"`
	Preemption      *bool              `json:"preemption,omitempty"`
	QuotaPreemption *bool              `json:"quotapreemption,omitempty"`
}

func (q *QSpec) IsLeaf() bool { return len(q.Children) == 0 && !q.Parent }

func (q *QSpec) clone() *QSpec {
	c := *q
	c.Max = q.Max.Clone()
	c.Guar = q.Guar.Clone()
	if q.Props != nil {
		c.Props = map[string]string{}
		for k, v := range q.Props {
			c.Props[k] = v
		}
	}
	c.Limits = nil
	for _, l := range q.Limits {
		l2 := l
		l2.MaxRes = l.MaxRes.Clone()
		l2.Users = append([]string(nil), l.Users...)
		l2.Groups = append([]string(nil), l.Groups...)
		c.Limits = append(c.Limits, l2)
	}
	if q.Template != nil {
		t := *q.Template
		t.Max = q.Template.Max.Clone()
		t.Guar = q.Template.Guar.Clone()
		c.Template = &t
	}
	c.Children = nil
	for _, ch := range q.Children {
		c.Children = append(c.Children, ch.clone())
	}
	return &c
}

func (c *ConfSpec) Clone() *ConfSpec {
	o := *c
	o.Root = c.Root.clone()
	o.Rules = append([]RuleSpec(nil), c.Rules...)
	return &o
}

// walk visits all queues with their full path.
func (q *QSpec) walk(prefix string, f func(path string, q *QSpec, parent *QSpec)) {
	q.walk2(prefix, nil, f)
}

func (q *QSpec) walk2(prefix string, parent *QSpec, f func(path string, q *QSpec, parent *QSpec)) {
	path := q.Name
	if prefix != "" {
		path = prefix + "." + q.Name
	}
	f(path, q, parent)
	for _, ch := range q.Children {
		ch.walk2(path, q, f)
	}
}

func (c *ConfSpec) Find(path string) *QSpec {
	var out *QSpec
	c.Root.walk("", func(p string, q *QSpec, _ *QSpec) {
		if p == path {
			out = q
		}
	})
	return out
}

func (c *ConfSpec) Leaves() []string {
	var out []string
	c.Root.walk("", func(p string, q *QSpec, _ *QSpec) {
		if q.IsLeaf() {
			out = append(out, p)
		}
	})
	return out
}

// ---- rendering into the configuration format -------------------------------------------------

func (q *QSpec) toConf() configs.QueueConfig {
	qc := configs.QueueConfig{
		Name:            q.docName(),
		Parent:          q.Parent || len(q.Children) > 0,
		MaxApplications: q.MaxApps,
		Properties:      q.Props,
		AdminACL:        q.AdminACL,
		SubmitACL:       q.SubmitACL,
	}
	qc.Resources = configs.Resources{Guaranteed: q.Guar.confMap(), Max: q.Max.confMap()}
	for _, l := range q.Limits {
		qc.Limits = append(qc.Limits, configs.Limit{Limit: "l", Users: l.Users, Groups: l.Groups, MaxResources: l.MaxRes.confMap(), MaxApplications: l.MaxApps})
	}
	if q.Template != nil {
		qc.ChildTemplate = configs.ChildTemplate{MaxApplications: q.Template.MaxApps, Properties: q.Template.Props,
			Resources: configs.Resources{Guaranteed: q.Template.Guar.confMap(), Max: q.Template.Max.confMap()}}
	}
	for _, ch := range q.Children {
		qc.Queues = append(qc.Queues, ch.toConf())
	}
	return qc
}

func (r *RuleSpec) toConf() configs.PlacementRule {
	pr := configs.PlacementRule{Name: r.Name, Create: r.Create, Value: r.Value}
	if r.FType != "" || len(r.FUsers) > 0 || len(r.FGroup) > 0 {
		pr.Filter = configs.Filter{Type: r.FType, Users: r.FUsers, Groups: r.FGroup}
	}
	if r.Parent != nil {
		p := r.Parent.toConf()
		pr.Parent = &p
	}
	return pr
}

func (c *ConfSpec) YAML() string {
	pc := configs.PartitionConfig{Name: "default", Queues: []configs.QueueConfig{c.Root.toConf()}}
	for i := range c.Rules {
		pc.PlacementRules = append(pc.PlacementRules, c.Rules[i].toConf())
	}
	pc.Preemption = configs.PartitionPreemptionConfig{Enabled: c.Preemption, QuotaPreemptionEnabled: c.QuotaPreemption}
	if c.NodeSort != "" {
		pc.NodeSortPolicy = configs.NodeSortingPolicy{Type: c.NodeSort, ResourceWeights: c.NodeSortWeights}
	}
	sc := configs.SchedulerConfig{Partitions: []configs.PartitionConfig{pc}}
	b, err := yaml.Marshal(&sc)
	if err != nil {
		panic(err)
	}
	return string(b)
}

// ---- the rest of the world ----------------------------------------------------------------------

type UserSpec struct {
	Name   string   `json:"name"`
	Groups []string `json:"groups"`
}

type NodeSpec struct {
	ID  string `json:"id"`
	Cap Res    `json:"cap"`
}

type WorldSpec struct {
	Conf  *ConfSpec  `json:"conf"`
	Users []UserSpec `json:"users"`
	Nodes []NodeSpec `json:"nodes"`
	Knobs Knobs      `json:"knobs"`
}

// Knobs are tuning values randomised per run so that correctness never depends on one setting.
type Knobs struct {
	ReservationDelayMs int64 `json:"reservation_delay_ms"`
	CompletingMs       int64 `json:"completing_ms"`
	DisableReservation bool  `json:"disable_reservation,omitempty"`
}

// Profile biases world generation towards the behaviour a check wants to exercise.
type Profile struct {
	Name          string
	Depth         int     // max queue depth below root
	Limits        float64 // probability a queue gets user/group limits
	MaxApps       float64 // probability of max-applications settings
	Guarantees    float64
	Preemption    bool
	QuotaPreempt  bool
	Gang          float64 // probability an application is a gang application
	Rules         bool    // generate placement rule chains (else queue names are given)
	Templates     float64
	PriorityProps float64
	Fair          float64 // probability of fair / priority sort policies
	TightMax      float64 // probability a queue gets a max
	ACLs          float64 // probability that root is not open to everybody and queues carry their own ACLs
}

var (
	allUsers  = []string{"alice", "bob", "carol", "dave"}
	allGroups = []string{"dev", "ops", "qa"}
)

func genRes(r *Rng, lo, hi int, pType float64) Res {
	out := Res{}
	for _, t := range resTypes {
		p := pType
		if t == "gpu" {
			p = pType / 3
		}
		if r.Bool(p) {
			out[t] = int64(r.Range(lo, hi))
		}
	}
	return out
}

// GenWorld builds a world from the seed. Configurations are meant to be valid; the caller verifies
// that with the repository's own validator before use and degrades the spec if it is not.
func GenWorld(seed uint64, pf Profile) *WorldSpec {
	r := NewRng(seed, "world")
	w := &WorldSpec{}
	// users
	nu := r.Range(2, 4)
	for i := 0; i < nu; i++ {
		u := UserSpec{Name: allUsers[i]}
		ng := r.Range(0, 2)
		perm := []int{0, 1, 2}
		for j := 0; j < ng; j++ {
			k := j + r.Intn(3-j)
			perm[j], perm[k] = perm[k], perm[j]
			u.Groups = append(u.Groups, allGroups[perm[j]])
		}
		w.Users = append(w.Users, u)
	}
	// nodes
	nn := r.Range(1, 5)
	if pf.Preemption {
		nn = r.Range(1, 3)
	}
	hasGPU := r.Bool(0.4)
	for i := 0; i < nn; i++ {
		cap := Res{"vcore": int64(r.Range(4, 16)), "memory": int64(r.Range(4, 16))}
		if hasGPU && r.Bool(0.6) {
			cap["gpu"] = int64(r.Range(1, 4))
		}
		w.Nodes = append(w.Nodes, NodeSpec{ID: fmt.Sprintf("n%d", i), Cap: cap})
	}
	total := Res{}
	for _, n := range w.Nodes {
		total.AddTo(n.Cap)
	}
	w.Conf = genConf(r, pf, total)
	w.Knobs = Knobs{
		ReservationDelayMs: pick(r, []int64{0, 0, 2000, 2000, 2000, 3600000}),
		CompletingMs:       pick(r, []int64{30000, 30000, 1000, 100}),
	}
	return w
}

func genProps(r *Rng, pf Profile, leaf bool) map[string]string {
	p := map[string]string{}
	if leaf && r.Bool(pf.Fair) {
		p["application.sort.policy"] = pick(r, []string{"fair", "fifo", "fifo"})
	}
	if r.Bool(pf.PriorityProps) {
		p["application.sort.priority"] = pick(r, []string{"enabled", "disabled"})
	}
	if r.Bool(pf.PriorityProps) {
		p["priority.offset"] = fmt.Sprintf("%d", r.Range(-3, 3))
	}
	pp := pf.PriorityProps / 2
	if pf.Preemption {
		pp = pf.PriorityProps // priority fences decide which victims are eligible
	}
	if r.Bool(pp) {
		p["priority.policy"] = pick(r, []string{"default", "fence"})
	}
	if pf.Preemption && r.Bool(0.35) {
		p["preemption.policy"] = pick(r, []string{"default", "fence", "disabled"})
	}
	if pf.Preemption && leaf && r.Bool(0.5) {
		p["preemption.delay"] = pick(r, []string{"1s", "5s", "30s"})
	}
	if pf.QuotaPreempt && r.Bool(0.6) {
		p["quota.preemption.delay"] = pick(r, []string{"1s", "10s", "60s"})
	}
	if len(p) == 0 {
		return nil
	}
	return p
}

// genLimits generates limits for one queue. inherited holds, per "u:<name>" / "g:<name>" (wildcard "*"
// included), the limit in force on the closest ancestor: a limit may only be tighter than that.
func genLimits(r *Rng, pf Profile, qmax Res, qmaxApps uint64, inherited map[string]LimitSpec) []LimitSpec {
	var out []LimitSpec
	n := r.Range(1, 3)
	usedU := map[string]bool{}
	usedG := map[string]bool{}
	wildU, wildG := false, false
	for i := 0; i < n; i++ {
		l := LimitSpec{}
		key := ""
		// named users / groups first, a wildcard only last
		switch r.Intn(4) {
		case 0:
			u := pick(r, allUsers)
			if usedU[u] || wildU {
				continue
			}
			usedU[u] = true
			l.Users = []string{u}
			key = "u:" + u
		case 1:
			g := pick(r, allGroups)
			if usedG[g] || wildG {
				continue
			}
			usedG[g] = true
			l.Groups = []string{g}
			key = "g:" + g
		case 2:
			if wildU {
				continue
			}
			wildU = true
			l.Users = []string{"*"}
			key = "u:*"
		case 3:
			// a wildcard group limit is only allowed after a named group limit
			if wildG || len(usedG) == 0 {
				continue
			}
			wildG = true
			l.Groups = []string{"*"}
			key = "g:*"
		}
		bound, hasBound := inherited[key]
		if !hasBound {
			bound, hasBound = inherited[key[:2]+"*"]
		}
		if r.Bool(0.8) {
			l.MaxRes = genRes(r, 1, 8, 0.7)
			if len(l.MaxRes) == 0 {
				l.MaxRes = Res{"vcore": int64(r.Range(1, 8))}
			}
			// stay within the queue maximum and within the ancestor's limit for the same user / wildcard
			for _, k := range sortedKeys(l.MaxRes) {
				v := l.MaxRes[k]
				if m, ok := qmax[k]; ok && v > m {
					l.MaxRes[k] = m
				}
				if hasBound && bound.MaxRes != nil {
					if m, ok := bound.MaxRes[k]; !ok {
						delete(l.MaxRes, k)
						continue
					} else if l.MaxRes[k] > m {
						l.MaxRes[k] = m
					}
				}
				if l.MaxRes[k] <= 0 {
					delete(l.MaxRes, k)
				}
			}
			if len(l.MaxRes) == 0 {
				l.MaxRes = nil
			}
		}
		if l.MaxRes == nil || r.Bool(0.4) || (hasBound && bound.MaxApps != 0) {
			l.MaxApps = uint64(r.Range(1, 3))
			if qmaxApps != 0 && l.MaxApps > qmaxApps {
				l.MaxApps = qmaxApps
			}
			if hasBound && bound.MaxApps != 0 && l.MaxApps > bound.MaxApps {
				l.MaxApps = bound.MaxApps
			}
		}
		out = append(out, l)
	}
	return out
}

func mergeInherited(inh map[string]LimitSpec, limits []LimitSpec) map[string]LimitSpec {
	out := map[string]LimitSpec{}
	for k, v := range inh {
		out[k] = v
	}
	for _, l := range limits {
		for _, u := range l.Users {
			out["u:"+u] = l
		}
		for _, g := range l.Groups {
			out["g:"+g] = l
		}
	}
	return out
}

func genConf(r *Rng, pf Profile, total Res) *ConfSpec {
	c := &ConfSpec{}
	root := &QSpec{Name: "root", SubmitACL: "*"}
	if r.Bool(0.2) {
		root.SubmitACL = ""
		root.AdminACL = "*"
	}
	aclP := 0.15
	if pf.ACLs > 0 && r.Bool(pf.ACLs) {
		// root is not open to everybody: access comes from the ACLs further down (or not at all)
		root.SubmitACL = pick(r, []string{"", " ops", "alice", "alice,bob"})
		root.AdminACL = pick(r, []string{"", "", "dave"})
		aclP = 0.6
	}
	if r.Bool(pf.MaxApps / 2) {
		root.MaxApps = uint64(r.Range(3, 8))
	}
	var build func(parent *QSpec, parentMax Res, depth int, inh map[string]LimitSpec)
	names := []string{"a", "b", "c", "d"}
	build = func(parent *QSpec, parentMax Res, depth int, inh map[string]LimitSpec) {
		nch := r.Range(1, 3)
		if depth == 0 {
			nch = r.Range(2, 3)
		}
		for i := 0; i < nch; i++ {
			q := &QSpec{Name: names[i], Upper: r.Bool(0.12)}
			leaf := depth+1 >= pf.Depth || r.Bool(0.5)
			if r.Bool(pf.TightMax) {
				q.Max = genRes(r, 2, 14, 0.7)
				for k, v := range q.Max {
					if pm, ok := parentMax[k]; ok && v > pm {
						q.Max[k] = pm
					}
				}
				if len(q.Max) == 0 {
					q.Max = nil
				}
				// an explicit zero: the type is forbidden here, not unlimited
				if q.Max != nil && r.Bool(0.1) {
					for _, t := range resTypes {
						if _, ok := q.Max[t]; !ok {
							q.Max[t] = 0
							break
						}
					}
				}
			}
			if parent.MaxApps != 0 {
				q.MaxApps = uint64(r.Range(1, int(parent.MaxApps)))
			} else if r.Bool(pf.MaxApps) {
				q.MaxApps = uint64(r.Range(1, 4))
			}
			q.Props = genProps(r, pf, leaf)
			if r.Bool(aclP) {
				q.SubmitACL = pick(r, []string{"alice", "alice,bob dev", " ops", "*"})
			}
			if aclP > 0.5 && r.Bool(0.3) {
				q.AdminACL = pick(r, []string{"carol", " qa", "bob dev", "*"})
			}
			effMax := parentMax.Clone()
			if effMax == nil {
				effMax = Res{}
			}
			for k, v := range q.Max {
				effMax[k] = v
			}
			if r.Bool(pf.Limits) {
				q.Limits = genLimits(r, pf, effMax, q.MaxApps, inh)
			}
			childInh := mergeInherited(inh, q.Limits)
			parent.Children = append(parent.Children, q)
			if !leaf {
				if r.Bool(pf.Templates) {
					q.Template = &TemplateSpec{}
					if r.Bool(0.6) {
						q.Template.Max = genRes(r, 2, 10, 0.6)
						for k, v := range q.Template.Max {
							if pm, ok := effMax[k]; ok && v > pm {
								q.Template.Max[k] = pm
							}
						}
					}
					if q.MaxApps != 0 {
						q.Template.MaxApps = uint64(r.Range(1, int(q.MaxApps)))
					} else if r.Bool(0.4) {
						q.Template.MaxApps = uint64(r.Range(1, 3))
					}
					if r.Bool(0.4) {
						q.Template.Props = genProps(r, pf, true)
					}
				}
				if r.Bool(0.3) {
					// a parent with no static children: only dynamic ones
					q.Parent = true
				} else {
					build(q, effMax, depth+1, childInh)
				}
			}
		}
	}
	var rootInh map[string]LimitSpec
	if r.Bool(pf.Limits / 2) {
		root.Limits = genLimits(r, pf, nil, root.MaxApps, nil)
		rootInh = mergeInherited(nil, root.Limits)
	}
	build(root, nil, 0, rootInh)
	hasLeaf := false
	root.walk("", func(_ string, q *QSpec, _ *QSpec) {
		if q.IsLeaf() && q != root {
			hasLeaf = true
		}
	})
	if !hasLeaf {
		root.Children = append(root.Children, &QSpec{Name: "z"})
	}
	if pf.ACLs > 0 && r.Bool(0.5) {
		// the queue applications fall back to when no rule matches
		dq := &QSpec{Name: "default"}
		if r.Bool(0.5) {
			dq.SubmitACL = pick(r, []string{"alice", " ops", "*", "bob dev"})
		}
		root.Children = append(root.Children, dq)
	}
	// guarantees: assigned bottom-up so that sums of children never exceed the parent's own values
	if pf.Guarantees > 0 {
		var assign func(q *QSpec, parentMax Res) Res
		assign = func(q *QSpec, parentMax Res) Res {
			effMax := parentMax.Clone()
			if effMax == nil {
				effMax = Res{}
			}
			for k, v := range q.Max {
				effMax[k] = v
			}
			sum := Res{}
			for _, ch := range q.Children {
				sum.AddTo(assign(ch, effMax))
			}
			if q.Name == "root" {
				return sum
			}
			if len(q.Children) == 0 {
				if r.Bool(pf.Guarantees) {
					g := genRes(r, 1, 6, 0.7)
					for k, v := range g {
						if m, ok := effMax[k]; ok && v > m {
							g[k] = m
						}
					}
					if len(g) > 0 {
						q.Guar = g
					}
				}
				return q.Guar.Clone().Add(nil)
			}
			// the sum of the children must fit the effective max of this queue
			for k, v := range sum {
				if m, ok := effMax[k]; ok && v > m {
					// shrink: drop guarantees of the children on this type
					for _, ch := range q.Children {
						dropGuar(ch, k)
					}
					delete(sum, k)
				}
			}
			if r.Bool(pf.Guarantees / 2) {
				g := sum.Clone()
				for _, k := range sortedKeys(g) {
					g[k] += int64(r.Range(0, 2))
					if m, ok := effMax[k]; ok && g[k] > m {
						g[k] = m
					}
				}
				if len(g) > 0 {
					q.Guar = g
					return g.Clone()
				}
			}
			return sum
		}
		assign(root, nil)
	}
	c.Root = root
	if pf.Rules {
		c.Rules = genRules(r, c)
	}
	if r.Bool(0.5) {
		c.NodeSort = pick(r, []string{"fair", "binpacking"})
		if r.Bool(0.3) {
			c.NodeSortWeights = map[string]float64{"vcore": float64(r.Range(1, 4)), "memory": float64(r.Range(0, 3))}
		}
	}
	if pf.Preemption {
		t := true
		c.Preemption = &t
	} else if r.Bool(0.5) {
		f := false
		c.Preemption = &f
	}
	if pf.QuotaPreempt {
		t := true
		c.QuotaPreemption = &t
	}
	return c
}

func dropGuar(q *QSpec, typ string) {
	delete(q.Guar, typ)
	if len(q.Guar) == 0 {
		q.Guar = nil
	}
	for _, ch := range q.Children {
		dropGuar(ch, typ)
	}
}

func genRules(r *Rng, c *ConfSpec) []RuleSpec {
	var rules []RuleSpec
	n := r.Range(1, 3)
	leaves := c.Leaves()
	if len(leaves) == 0 {
		return nil
	}
	var parents []string
	c.Root.walk("", func(p string, q *QSpec, _ *QSpec) {
		if !q.IsLeaf() && p != "root" {
			parents = append(parents, p)
		}
	})
	for i := 0; i < n; i++ {
		var rs RuleSpec
		switch r.Intn(4) {
		case 0:
			rs = RuleSpec{Name: "provided", Create: r.Bool(0.4)}
		case 1:
			rs = RuleSpec{Name: "user", Create: r.Bool(0.7)}
		case 2:
			rs = RuleSpec{Name: "tag", Value: "namespace", Create: r.Bool(0.7)}
		case 3:
			rs = RuleSpec{Name: "fixed", Value: pick(r, leaves), Create: false}
		}
		if rs.Name != "fixed" && rs.Name != "provided" && len(parents) > 0 && r.Bool(0.6) {
			rs.Parent = &RuleSpec{Name: "fixed", Value: pick(r, parents)}
		} else if rs.Name == "provided" && len(parents) > 0 && r.Bool(0.3) {
			rs.Parent = &RuleSpec{Name: "fixed", Value: pick(r, parents)}
		}
		if r.Bool(0.3) {
			rs.FType = pick(r, []string{"allow", "deny"})
			if r.Bool(0.5) {
				rs.FUsers = []string{pick(r, allUsers)}
			} else {
				rs.FGroup = []string{pick(r, allGroups)}
			}
		}
		rules = append(rules, rs)
	}
	// make sure something can always place
	if r.Bool(0.7) {
		rules = append(rules, RuleSpec{Name: "fixed", Value: pick(r, leaves)})
	}
	return rules
}

// Validate runs the repository's validator over the rendered text.
func (c *ConfSpec) Validate() error {
	_, err := configs.LoadSchedulerConfigFromByteArray([]byte(c.YAML()))
	return err
}

// Degrade removes the feature most likely to have made the configuration invalid; called in a loop.
func (c *ConfSpec) Degrade(step int) {
	switch step {
	case 0:
		c.Root.walk("", func(_ string, q *QSpec, _ *QSpec) { q.Limits = nil })
	case 1:
		c.Root.walk("", func(_ string, q *QSpec, _ *QSpec) { q.Guar = nil; q.Template = nil })
	case 2:
		c.Rules = nil
	case 3:
		c.Root.walk("", func(_ string, q *QSpec, _ *QSpec) { q.MaxApps = 0 })
	default:
		c.Root.walk("", func(_ string, q *QSpec, _ *QSpec) { q.Max = nil; q.Props = nil; q.SubmitACL = ""; q.AdminACL = "" })
		c.Root.SubmitACL = "*"
	}
}

func sortedKeys[V any](m map[string]V) []string {
	out := make([]string, 0, len(m))
	for k := range m {
		out = append(out, k)
	}
	sort.Strings(out)
	return out
}

func pathParts(p string) []string { return strings.Split(p, ".") }

// ancestors returns root ... path (inclusive).
func ancestors(path string) []string {
	parts := pathParts(path)
	out := make([]string, 0, len(parts))
	for i := range parts {
		out = append(out, strings.Join(parts[:i+1], "."))
	}
	return out
}
