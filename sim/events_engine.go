package sim

import (
	"fmt"
	"strconv"
	"time"

	"github.com/apache/yunikorn-core/pkg/common/configs"
	"github.com/apache/yunikorn-core/pkg/events"
	"github.com/apache/yunikorn-core/pkg/plugins"
	"github.com/apache/yunikorn-scheduler-interface/lib/go/si"
)

// Engine E (C20): a focused simulation of pkg/events. One producer (so that the id order is known exactly),
// a resize task, query tasks and stream subscribers run as managed goroutines on the real EventSystemImpl,
// interleaved by the conductor at lock granularity.

type evQuery struct {
	Start, Count uint64
	N            int
	Lowest, Last uint64
	Added        int      // events handed to AddEvent when the query was issued
	AddedAfter   int      // ... when it returned
	Caps         []uint64 // capacities that may have been in force during the query
	First        string
}

type evSub struct {
	id       int
	want     uint64
	got      []int // payload numbers received
	created  int   // events added when the stream was created
	closed   bool
	closedAt int
	evicted  bool
	stream   *events.EventStream
	lazy     bool
}

type evEngine struct {
	s         *Sim
	added     int      // number of AddEvent calls made (ids 0..added-1)
	caps      []uint64 // every capacity ever configured, in order
	reqCaps   []uint64
	capNow    uint64
	queries   int
	subs      []*evSub
	batches   int
	feasible  map[uint64]bool
	quiescent bool
}

func payloadNo(e *si.EventRecord) int {
	n, err := strconv.Atoi(e.Message)
	if err != nil {
		return -1
	}
	return n
}

type evCB struct {
	shimCB
	e *evEngine
}

func (cb *evCB) SendEvent(evs []*si.EventRecord) {
	e := cb.e
	e.s.c.yield("sendEvent")
	e.batches++
	max := uint64(0)
	for _, c := range e.reqCaps {
		if c > max {
			max = c
		}
	}
	if uint64(len(evs)) > max {
		e.s.violate("C20", "shim-batch-too-large", "", "the batch handed to the shim has %d events, the configured request capacity never exceeded %d", len(evs), max)
	}
}

func (s *Sim) driveEvents() {
	r := s.rng
	e := &evEngine{s: s}
	ringCap := uint64(pick(r, []int{1, 2, 3, 5, 8, 13, 50}))
	reqCap := uint64(pick(r, []int{1, 3, 10, 1000}))
	e.caps = []uint64{ringCap}
	e.reqCaps = []uint64{reqCap}
	e.capNow = ringCap
	configs.SetConfigMap(map[string]string{"event.ringBufferCapacity": fmt.Sprint(ringCap), "event.requestCapacity": fmt.Sprint(reqCap)})
	events.Init()
	plugins.RegisterSchedulerPlugin(&evCB{shimCB: shimCB{s: s.shim}, e: e})
	es := events.GetEventSystem()
	es.StartService()
	s.c.settle()
	steps := s.cfg.Steps
	for i := 0; i < steps; i++ {
		s.steps++
		s.step++
		n := r.Range(1, 3)
		// a batch of concurrent tasks; the conductor interleaves them (one producer at a time: the id order is the order of its calls)
		produced := 0
		var resized []uint64
		for j := 0; j < n; j++ {
			k := r.Intn(100)
			if k < 40 && produced > 0 {
				k = 60
			}
			switch {
			case k < 40:
				cnt := r.Range(1, 6)
				produced = cnt
				s.c.spawn(func() { e.produce(es, cnt) }, false)
			case k < 50:
				nc := uint64(pick(r, []int{1, 2, 3, 4, 6, 9, 20}))
				nrc := uint64(pick(r, []int{1, 2, 5, 1000}))
				if len(resized) > 0 {
					continue // config map updates of one batch would race in the harness itself
				}
				resized = append(resized, nc)
				s.c.spawn(func() { e.resize(nc, nrc) }, false)
			case k < 80:
				start, count := e.genQuery(r)
				s.c.spawn(func() { e.query(es, start, count) }, false)
			case k < 90:
				if len(e.subs) < 4 {
					sub := &evSub{id: len(e.subs), want: uint64(pick(r, []int{0, 1, 3, 10, 1000})), lazy: r.Bool(0.3)}
					e.subs = append(e.subs, sub)
					s.c.spawn(func() { e.subscribe(es, sub) }, false)
				}
			default:
				var open []*evSub
				for _, sub := range e.subs {
					if sub.stream != nil && !sub.closed {
						open = append(open, sub)
					}
				}
				if len(open) > 0 {
					sub := pick(r, open)
					s.c.spawn(func() { e.unsubscribe(es, sub) }, false)
				}
			}
		}
		s.c.settle()
		s.quiescents++
		e.advanceModel(produced, resized)
		e.drainSubs(false)
		{
			// abstract state of the event system at this quiescent point: window position relative to the
			// capacity, fill, and what every subscriber has received so far
			lo, hi := e.lastRange(es)
			st := fmt.Sprint(e.capNow, hi-lo, lo%maxU(e.capNow, 1), e.added > int(e.capNow))
			for _, sub := range e.subs {
				st += fmt.Sprint("|", sub.want, sub.closed, sub.stream != nil, len(sub.got))
			}
			if len(s.stateSet) < 1<<16 {
				s.stateSet[hashStr(1469598103934665603, st)] = true
			}
		}
		if r.Bool(0.2) {
			s.c.advanceClock(time.Duration(r.Range(100, 3000))*time.Millisecond, time.Second)
		}
	}
	// everything is processed now: final queries over the whole range and the streams must be complete
	s.c.settle()
	s.c.advanceClock(3*time.Second, time.Second)
	e.quiescent = true
	e.query(es, 0, 1<<40)
	lowest, last := e.lastRange(es)
	for id := lowest; id <= last && last > 0; id++ {
		e.query(es, id, uint64(r.Range(1, 4)))
	}
	e.drainSubs(true)
	s.probes["ring_checked"] += e.queries
	s.probes["events_added"] += e.added
	s.probes["shim_batches"] += e.batches
	s.everBound = e.added
}

func (e *evEngine) lastRange(es events.EventSystem) (uint64, uint64) {
	_, lowest, last := es.GetEventsFromID(1<<60, 1)
	return lowest, last
}

func (e *evEngine) produce(es events.EventSystem, n int) {
	for i := 0; i < n; i++ {
		no := e.added
		e.added++
		es.AddEvent(&si.EventRecord{Type: si.EventRecord_APP, ObjectID: "obj", Message: strconv.Itoa(no), TimestampNano: time.Now().UnixNano()}) // simulated clock: events of one instant share a timestamp
	}
}

func (e *evEngine) resize(ring, req uint64) {
	e.caps = append(e.caps, ring)
	e.reqCaps = append(e.reqCaps, req)
	e.s.faults["ring_resize"]++
	configs.SetConfigMap(map[string]string{"event.ringBufferCapacity": fmt.Sprint(ring), "event.requestCapacity": fmt.Sprint(req)})
}

func (e *evEngine) genQuery(r *Rng) (uint64, uint64) {
	hi := e.added + 3
	start := uint64(r.Intn(hi + 1))
	if r.Bool(0.1) {
		start = uint64(r.Range(0, 2))
	}
	count := uint64(pick(r, []int{0, 1, 1, 2, 3, 5, 8, 1000}))
	if r.Bool(0.05) {
		count = 1 << 62
	}
	return start, count
}

// query issues one history query and checks the answer against the log of added events.
func (e *evEngine) query(es events.EventSystem, start, count uint64) {
	s := e.s
	addedBefore := e.added
	capsBefore := len(e.caps)
	evs, lowest, last := es.GetEventsFromID(start, count)
	e.queries++
	_, _ = addedBefore, capsBefore
	desc := fmt.Sprintf("query(start=%d,count=%d) -> %d events, available %d..%d", start, count, len(evs), lowest, last)
	if uint64(len(evs)) > count {
		s.violate("C20", "more-than-requested", "", "%s: more events than requested", desc)
	}
	for j, ev := range evs {
		if ev == nil {
			s.violate("C20", "nil-event", "", "%s: entry %d is nil", desc, j)
			return
		}
		if got := payloadNo(ev); got != int(start)+j {
			s.violate("C20", "not-the-requested-range", "", "%s: entry %d is event %d, expected event %d (ids must be consecutive from the start id, without gaps or repeats)", desc, j, got, int(start)+j)
			return
		}
	}
	if last >= uint64(e.added) && e.added > 0 {
		s.violate("C20", "id-beyond-added", "", "%s: newest id %d but only %d events were ever added", desc, last, e.added)
	}
	if lowest > last && !(last == 0) {
		s.violate("C20", "range-inverted", "", "%s: lowest available id above the newest", desc)
	}
	if len(evs) == 0 {
		// an empty buffer and a buffer that holds only event 0 both report the range 0..0: not judged
		if count > 0 && start >= lowest && start <= last && last > 0 {
			s.violate("C20", "empty-inside-range", "", "%s: nothing returned although the start id is inside the available range", desc)
		}
	} else {
		// up to the requested count or the newest event
		want := last - start + 1
		if count < want {
			want = count
		}
		if uint64(len(evs)) != want {
			s.violate("C20", "wrong-length", "", "%s: expected %d events (up to the count or the newest event)", desc, want)
		}
	}
	// retention: the most recent events up to the capacity, also across resizes. The order in which the additions and the
	// resizes of the last batch were applied is not observable: the model keeps the set of feasible retained counts.
	if e.quiescent && last+1 == uint64(e.added) && e.added > 0 {
		size := last - lowest + 1
		if !e.feasible[size] {
			s.violate("C20", "retention", "", "%s: %d events retained after %d additions; feasible counts for the capacities configured (%v): %v", desc, size, e.added, e.caps, keysU64(e.feasible))
		}
	}
	if size := last - lowest + 1; last > 0 && size > e.maxCap() {
		s.violate("C20", "retention-above-capacity", "", "%s: %d events retained, no capacity configured so far exceeds %d", desc, size, e.maxCap())
	}
}

func (e *evEngine) maxCap() uint64 {
	m := uint64(0)
	for _, c := range e.caps {
		if c > m {
			m = c
		}
	}
	return m
}

func keysU64(m map[uint64]bool) []uint64 {
	var out []uint64
	for k := range m {
		out = append(out, k)
	}
	return out
}

// advanceModel: feasible retained counts after a batch with k additions and the given resizes, in any interleaving.
func (e *evEngine) advanceModel(k int, resizes []uint64) {
	if e.feasible == nil {
		e.feasible = map[uint64]bool{0: true}
	}
	next := map[uint64]bool{}
	type st struct {
		r, cap uint64
		k, m   int
	}
	var walk func(x st)
	seen := map[st]bool{}
	walk = func(x st) {
		if seen[x] {
			return
		}
		seen[x] = true
		if x.k == 0 && x.m == len(resizes) {
			next[x.r] = true
			return
		}
		if x.k > 0 {
			r := x.r + 1
			if r > x.cap {
				r = x.cap
			}
			walk(st{r, x.cap, x.k - 1, x.m})
		}
		if x.m < len(resizes) {
			c := resizes[x.m]
			r := x.r
			if r > c {
				r = c
			}
			walk(st{r, c, x.k, x.m + 1})
		}
	}
	for r := range e.feasible {
		walk(st{r, e.capNow, k, 0})
	}
	if len(resizes) > 0 {
		e.capNow = resizes[len(resizes)-1]
	}
	e.feasible = next
}

func (e *evEngine) anyProcessed(es events.EventSystem) bool {
	evs, _, _ := es.GetEventsFromID(0, 1)
	return len(evs) > 0
}

func (e *evEngine) anyProcessedRange(lowest, last uint64, n int) bool {
	return last > 0 || n > 0 || lowest > 0
}

func (e *evEngine) subscribe(es events.EventSystem, sub *evSub) {
	sub.created = e.added
	sub.stream = es.CreateEventStream(fmt.Sprintf("sub-%d", sub.id), sub.want)
	e.s.faults["stream_created"]++
}

func (e *evEngine) unsubscribe(es events.EventSystem, sub *evSub) {
	sub.closed = true
	sub.closedAt = e.added
	es.RemoveStream(sub.stream)
	e.s.faults["stream_removed"]++
}

// drainSubs reads what the streams have delivered so far (non-blocking) and checks order and completeness.
func (e *evEngine) drainSubs(final bool) {
	s := e.s
	for _, sub := range e.subs {
		if sub.stream == nil || (sub.lazy && !final) {
			continue
		}
	loop:
		for {
			select {
			case ev, ok := <-sub.stream.Events:
				if !ok {
					if !sub.closed {
						sub.evicted = true
						sub.closed = true
						s.probe("slow_subscriber_evicted")
					}
					break loop
				}
				sub.got = append(sub.got, payloadNo(ev))
			default:
				break loop
			}
		}
		for j := 1; j < len(sub.got); j++ {
			if sub.got[j] != sub.got[j-1]+1 {
				s.violate("C20", "stream-order", "", "subscriber %d received event %d after event %d (every event once, in order, no gaps): %v", sub.id, sub.got[j], sub.got[j-1], tailInts(sub.got, 12))
				sub.got = sub.got[:0]
				break
			}
		}
		if final && !sub.closed && e.added > 0 {
			// open until the end: it must have everything up to the newest event
			if len(sub.got) == 0 || sub.got[len(sub.got)-1] != e.added-1 {
				lastGot := -1
				if len(sub.got) > 0 {
					lastGot = sub.got[len(sub.got)-1]
				}
				if e.added-sub.created > 0 || sub.want > 0 {
					s.violate("C20", "stream-incomplete", "", "subscriber %d is still open but its last event is %d, the newest event is %d", sub.id, lastGot, e.added-1)
				}
			}

		}
	}
}

func tailInts(xs []int, n int) []int {
	if len(xs) > n {
		return xs[len(xs)-n:]
	}
	return xs
}

func maxU(a, b uint64) uint64 {
	if a > b {
		return a
	}
	return b
}
