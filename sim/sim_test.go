package sim

import "testing"

// TestSim is the entry point of the simulation binary: one simulated run per process.
func TestSim(t *testing.T) { testSim(t) }
