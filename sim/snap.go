package sim

import (
	"sort"

	"github.com/apache/yunikorn-core/pkg/scheduler"
	"github.com/apache/yunikorn-core/pkg/scheduler/objects"
	"github.com/apache/yunikorn-core/pkg/webservice/dao"
)

// Snapshot of the core's own facts, read through exported getters and DAOs at a quiescent point.

type AllocSnap struct {
	Key          string
	App          string
	Node         string
	Res          Res
	Placeholder  bool
	Released     bool
	Preempted    bool
	Allocated    bool
	ReleaseKey   string // linked allocation (in-flight swap), if any
	ReleaseNode  string
	TaskGroup    string
	Priority     int32
	RequiredNode string
	Foreign      bool
	CreateNs     int64
}

type PhData struct {
	Count, Replaced, TimedOut int64
}

type AppSnap struct {
	ID           string
	Queue        string
	State        string
	User         string
	Groups       []string
	Alloc        Res
	PhAlloc      Res
	Pending      Res
	Allocs       map[string]*AllocSnap // allocated
	Asks         map[string]*AllocSnap // all requests the application lists (allocated or not)
	Reservations map[string]string     // ask key -> node
	ResKeys      []string
	StateLog     []string
	Ph           map[string]PhData
	SubmitNs     int64
	Where        string // live, completed, rejected
}

type NodeSnap struct {
	ID          string
	Cap         Res
	Alloc       Res
	Avail       Res
	Occupied    Res
	Schedulable bool
	Allocs      map[string]*AllocSnap
	Foreign     map[string]*AllocSnap
	ResKeys     []string          // reservation keys as the node lists them
	Reserved    map[string]string // ask key -> app id, from the reservation objects
	ReservedReq map[string]bool   // ask key -> the ask requires this node
}

type QSnap struct {
	Path       string
	Leaf       bool
	Managed    bool
	Status     string
	Alloc      Res
	Pending    Res
	Max        Res
	HasMax     bool
	Guar       Res
	Preempting Res
	HeadRoom   Res
	HasHead    bool
	MaxApps    uint64
	Running    uint64
	Allocating []string
	Props      map[string]string
	Children   []string
	Parent     string
	Apps       []string
	Reserved   map[string]int
	DAO        *dao.PartitionQueueDAOInfo
	Template   *dao.TemplateInfo
}

type Snap struct {
	Queues        map[string]*QSnap
	Apps          map[string]*AppSnap // live applications
	Done          map[string]*AppSnap // completed / rejected lists
	Nodes         map[string]*NodeSnap
	PartRes       int
	PartPh        int
	PartAllocs    int
	Total         Res
	Foreign       map[string]*AllocSnap
	Pend          [3]int
	PartitionGone bool
}

func snapAlloc(a *objects.Allocation) *AllocSnap {
	s := &AllocSnap{Key: a.GetAllocationKey(), App: a.GetApplicationID(), Node: a.GetNodeID(), Res: ResFromCore(a.GetAllocatedResource()),
		Placeholder: a.IsPlaceholder(), Released: a.IsReleased(), Preempted: a.IsPreempted(), Allocated: a.IsAllocated(),
		TaskGroup: a.GetTaskGroup(), Priority: a.GetPriority(), RequiredNode: a.GetRequiredNode(), Foreign: a.IsForeign(),
		CreateNs: a.GetCreateTime().UnixNano()}
	if r := a.GetRelease(); r != nil {
		s.ReleaseKey = r.GetAllocationKey()
		s.ReleaseNode = r.GetNodeID()
	}
	return s
}

func snapApp(app *objects.Application, where string) *AppSnap {
	as := &AppSnap{ID: app.ApplicationID, Queue: app.GetQueuePath(), State: app.CurrentState(), Where: where,
		Alloc: ResFromCore(app.GetAllocatedResource()), PhAlloc: ResFromCore(app.GetPlaceholderResource()), Pending: ResFromCore(app.GetPendingResource()),
		Allocs: map[string]*AllocSnap{}, Asks: map[string]*AllocSnap{}, Reservations: map[string]string{}, Ph: map[string]PhData{},
		SubmitNs: app.GetSubmissionTime().UnixNano()}
	ug := app.GetUser()
	as.User = ug.User
	as.Groups = append([]string(nil), ug.Groups...)
	for _, a := range app.GetAllAllocations() {
		as.Allocs[a.GetAllocationKey()] = snapAlloc(a)
	}
	for _, a := range app.GetAllRequests() {
		as.Asks[a.GetAllocationKey()] = snapAlloc(a)
	}
	as.ResKeys = app.GetReservations()
	sort.Strings(as.ResKeys)
	for _, k := range as.ResKeys {
		as.Reservations[k] = app.NodeReservedForAsk(k)
	}
	for _, e := range app.GetStateLog() {
		as.StateLog = append(as.StateLog, e.ApplicationState)
	}
	for _, p := range app.GetAllPlaceholderData() {
		as.Ph[p.TaskGroupName] = PhData{Count: p.Count, Replaced: p.Replaced, TimedOut: p.TimedOut}
	}
	return as
}

func flattenQueue(d *dao.PartitionQueueDAOInfo, out map[string]*QSnap) {
	q := &QSnap{Path: d.QueueName, Leaf: d.IsLeaf, Managed: d.IsManaged, Status: d.Status, Alloc: ResFromDAO(d.AllocatedResource),
		Pending: ResFromDAO(d.PendingResource), Max: ResFromDAO(d.MaxResource), HasMax: d.MaxResource != nil, Guar: ResFromDAO(d.GuaranteedResource),
		Preempting: ResFromDAO(d.PreemptingResource), HeadRoom: ResFromDAO(d.HeadRoom), HasHead: d.HeadRoom != nil,
		MaxApps: d.MaxRunningApps, Running: d.RunningApps, Allocating: append([]string(nil), d.AllocatingAcceptedApps...),
		Props: d.Properties, Parent: d.Parent, DAO: d, Template: d.TemplateInfo}
	sort.Strings(q.Allocating)
	for i := range d.Children {
		q.Children = append(q.Children, d.Children[i].QueueName)
		flattenQueue(&d.Children[i], out)
	}
	sort.Strings(q.Children)
	out[q.Path] = q
}

func walkQueues(q *objects.Queue, f func(q *objects.Queue)) {
	f(q)
	ch := q.GetCopyOfChildren()
	for _, k := range sortedKeys(ch) {
		walkQueues(ch[k], f)
	}
}

// TakeSnap reads the partition. Must be called at a quiescent point (nothing else is running).
func TakeSnap(sch *scheduler.Scheduler, partition string) *Snap {
	s := &Snap{Queues: map[string]*QSnap{}, Apps: map[string]*AppSnap{}, Done: map[string]*AppSnap{}, Nodes: map[string]*NodeSnap{}, Foreign: map[string]*AllocSnap{}}
	pc := sch.GetClusterContext().GetPartition(partition)
	if pc == nil {
		s.PartitionGone = true
		return s
	}
	a, n, i := sch.SimPendingEvents()
	s.Pend = [3]int{a, n, i}
	root := pc.SimRoot()
	d := root.GetPartitionQueueDAOInfo(true)
	flattenQueue(&d, s.Queues)
	walkQueues(root, func(q *objects.Queue) {
		qs := s.Queues[q.QueuePath]
		if qs == nil {
			return
		}
		apps := q.GetCopyOfApps()
		qs.Apps = sortedKeys(apps)
		qs.Reserved = q.GetReservedApps()
	})
	for _, app := range pc.GetApplications() {
		s.Apps[app.ApplicationID] = snapApp(app, "live")
	}
	for _, app := range pc.GetCompletedApplications() {
		s.Done[app.ApplicationID] = snapApp(app, "completed")
	}
	for _, app := range pc.GetRejectedApplications() {
		if _, ok := s.Done[app.ApplicationID]; !ok {
			s.Done[app.ApplicationID] = snapApp(app, "rejected")
		}
	}
	for _, node := range pc.GetNodes() {
		ns := &NodeSnap{ID: node.NodeID, Cap: ResFromCore(node.GetCapacity()), Alloc: ResFromCore(node.GetAllocatedResource()),
			Avail: ResFromCore(node.GetAvailableResource()), Occupied: ResFromCore(node.GetOccupiedResource()), Schedulable: node.IsSchedulable(),
			Allocs: map[string]*AllocSnap{}, Foreign: map[string]*AllocSnap{}, Reserved: map[string]string{}, ReservedReq: map[string]bool{}}
		for _, al := range node.GetYunikornAllocations() {
			ns.Allocs[al.GetAllocationKey()] = snapAlloc(al)
		}
		for _, al := range node.GetForeignAllocations() {
			ns.Foreign[al.GetAllocationKey()] = snapAlloc(al)
		}
		ns.ResKeys = node.GetReservationKeys()
		sort.Strings(ns.ResKeys)
		for _, r := range node.GetReservations() {
			_, app, ask := r.GetObjects()
			if app != nil && ask != nil {
				ns.Reserved[ask.GetAllocationKey()] = app.ApplicationID
				ns.ReservedReq[ask.GetAllocationKey()] = ask.GetRequiredNode() != ""
			}
		}
		s.Nodes[ns.ID] = ns
	}
	for _, f := range pc.SimForeignAllocs() {
		s.Foreign[f.GetAllocationKey()] = snapAlloc(f)
	}
	s.PartRes = pc.SimReservationCount()
	s.PartPh = pc.SimPlaceholderCount()
	s.PartAllocs = pc.GetTotalAllocationCount()
	s.Total = ResFromCore(pc.GetTotalPartitionResource())
	return s
}
