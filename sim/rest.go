package sim

import (
	"net/http"
	"net/http/httptest"
	"sort"

	"github.com/apache/yunikorn-core/pkg/webservice"
)

// REST readers: the real router and handlers, served in memory (no socket) on goroutines of their own so that
// they overlap with the event handlers and the scheduling loop.

func (s *Sim) restPaths() []string {
	paths := []string{"/ws/v1/partitions", "/ws/v1/partition/default/queues", "/ws/v1/partition/default/nodes", "/ws/v1/partition/default/applications/active",
		"/ws/v1/partition/default/applications/completed", "/ws/v1/partition/default/applications/rejected", "/ws/v1/partition/default/usage/users",
		"/ws/v1/partition/default/usage/groups", "/ws/v1/scheduler/healthcheck", "/ws/v1/partition/default/placementrules", "/ws/v1/scheduler/node-utilizations",
		"/ws/v1/clusters", "/ws/v1/events/batch?count=50", "/ws/v1/fullstatedump"}
	s.shim.mu.Lock()
	apps := s.shim.liveAppIDs()
	nodes := s.shim.liveNodeIDs()
	s.shim.mu.Unlock()
	sort.Strings(apps)
	for _, a := range apps {
		paths = append(paths, "/ws/v1/partition/default/application/"+a)
	}
	for _, n := range nodes {
		paths = append(paths, "/ws/v1/partition/default/node/"+n)
	}
	return paths
}

func (s *Sim) restRead(n int) {
	if s.router == nil {
		s.router = webservice.SimRouter(s.sc.Scheduler.GetClusterContext())
	}
	paths := s.restPaths()
	for i := 0; i < n; i++ {
		p := paths[s.rrng.Intn(len(paths))]
		s.c.yield("rest")
		rec := httptest.NewRecorder()
		req := httptest.NewRequest(http.MethodGet, p, nil)
		s.router.ServeHTTP(rec, req)
		if rec.Code >= 500 {
			s.restErrors++
		}
		s.restReads++
	}
}
