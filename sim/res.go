package sim

import (
	"fmt"
	"sort"
	"strings"

	"github.com/apache/yunikorn-core/pkg/common/resources"
	"github.com/apache/yunikorn-scheduler-interface/lib/go/si"
)

// Res is the harness' own sparse integer vector. nil means "undefined" where that matters.
type Res map[string]int64

var resTypes = []string{"vcore", "memory", "gpu"}

func (r Res) Clone() Res {
	if r == nil {
		return nil
	}
	o := Res{}
	for k, v := range r {
		o[k] = v
	}
	return o
}

func (r Res) Add(o Res) Res {
	out := r.Clone()
	if out == nil {
		out = Res{}
	}
	for k, v := range o {
		out[k] += v
	}
	return out
}

func (r Res) Sub(o Res) Res {
	out := r.Clone()
	if out == nil {
		out = Res{}
	}
	for k, v := range o {
		out[k] -= v
	}
	return out
}

func (r Res) AddTo(o Res) {
	for k, v := range o {
		r[k] += v
	}
}

func (r Res) SubFrom(o Res) {
	for k, v := range o {
		r[k] -= v
	}
}

// Keys of the union of the two, sorted.
func unionKeys(a, b Res) []string {
	m := map[string]bool{}
	for k := range a {
		m[k] = true
	}
	for k := range b {
		m[k] = true
	}
	out := make([]string, 0, len(m))
	for k := range m {
		out = append(out, k)
	}
	sort.Strings(out)
	return out
}

// Eq compares treating a missing type as zero.
func (r Res) Eq(o Res) bool {
	for _, k := range unionKeys(r, o) {
		if r[k] != o[k] {
			return false
		}
	}
	return true
}

func (r Res) IsZero() bool {
	for _, v := range r {
		if v != 0 {
			return false
		}
	}
	return true
}

func (r Res) HasNegative() bool {
	for _, v := range r {
		if v < 0 {
			return true
		}
	}
	return false
}

// FitsIn: every component of r is <= the same component of cap, a type missing in cap is zero.
func (r Res) FitsIn(cap Res) bool {
	for k, v := range r {
		if v > cap[k] {
			return false
		}
	}
	return true
}

// FitsInMaxUndef: only the types max defines limit.
func (r Res) FitsInMaxUndef(max Res) bool {
	for k, m := range max {
		if r[k] > m {
			return false
		}
	}
	return true
}

func (r Res) String() string {
	if r == nil {
		return "nil"
	}
	ks := make([]string, 0, len(r))
	for k := range r {
		ks = append(ks, k)
	}
	sort.Strings(ks)
	var b strings.Builder
	b.WriteString("{")
	for i, k := range ks {
		if i > 0 {
			b.WriteString(",")
		}
		fmt.Fprintf(&b, "%s:%d", k, r[k])
	}
	b.WriteString("}")
	return b.String()
}

func (r Res) Prune() Res {
	o := Res{}
	for k, v := range r {
		if v != 0 {
			o[k] = v
		}
	}
	return o
}

func (r Res) ToSI() *si.Resource {
	if r == nil {
		return nil
	}
	out := &si.Resource{Resources: map[string]*si.Quantity{}}
	for k, v := range r {
		out.Resources[k] = &si.Quantity{Value: v}
	}
	return out
}

func ResFromSI(r *si.Resource) Res {
	out := Res{}
	if r == nil {
		return out
	}
	for k, v := range r.Resources {
		if v != nil {
			out[k] = v.Value
		}
	}
	return out
}

// ResFromCore converts a core resource (through its exported fields only).
func ResFromCore(r *resources.Resource) Res {
	out := Res{}
	if r == nil {
		return out
	}
	for k, v := range r.Resources {
		out[k] = int64(v)
	}
	return out
}

// ResFromDAO converts the map the REST DAOs expose.
func ResFromDAO(m map[string]int64) Res {
	out := Res{}
	for k, v := range m {
		out[k] = v
	}
	return out
}

// confMap renders the vector as the configuration text wants it: vcore in milli units.
func (r Res) confMap() map[string]string {
	if r == nil {
		return nil
	}
	out := map[string]string{}
	for k, v := range r {
		if k == "vcore" {
			out[k] = fmt.Sprintf("%dm", v)
		} else {
			out[k] = fmt.Sprintf("%d", v)
		}
	}
	return out
}

// tagJSON renders the vector as the JSON the namespace.resourcequota application tag carries.
func (r Res) tagJSON() string {
	ks := make([]string, 0, len(r))
	for k := range r {
		ks = append(ks, k)
	}
	sort.Strings(ks)
	var parts []string
	for _, k := range ks {
		v := fmt.Sprintf("%d", r[k])
		if k == "vcore" {
			v += "m"
		}
		parts = append(parts, fmt.Sprintf("\"%s\":\"%s\"", k, v))
	}
	return "{" + strings.Join(parts, ",") + "}"
}
