package sim

import (
	"math"

	"github.com/apache/yunikorn-core/pkg/common/resources"
	"github.com/apache/yunikorn-core/pkg/scheduler/objects"
)

// ---- C19: scheduling order is a function of the documented keys, not of storage order -------------------
// At quiescent points (nothing runs: keys cannot move) the real sorters are called K times; every call ranges
// the candidate maps in another seeded permutation (the map-order seam). Each result must be consistent with
// the documented keys and the K results must agree wherever the keys distinguish two candidates.

const sortRepeats = 3

// queueBefore: must child a be tried strictly before child b under the parent's policy? (0 = keys do not decide)
func queueOrder(parent *objects.Queue, a, b *objects.Queue) int {
	fair := parent.SimSortType() == "fair"
	prio := parent.IsPrioritySortEnabled()
	cmpPrio := func() int {
		pa, pb := a.GetCurrentPriority(), b.GetCurrentPriority()
		switch {
		case pa > pb:
			return -1
		case pa < pb:
			return 1
		}
		return 0
	}
	cmpFair := func() int {
		return resources.CompUsageRatioSeparately(a.GetAllocatedResource(), a.GetGuaranteedResource(), a.GetFairMaxResource(),
			b.GetAllocatedResource(), b.GetGuaranteedResource(), b.GetFairMaxResource())
	}
	cmpPending := func() int {
		if resources.StrictlyGreaterThan(resources.Sub(a.GetPendingResource(), b.GetPendingResource()), resources.Zero) {
			return -1
		}
		if resources.StrictlyGreaterThan(resources.Sub(b.GetPendingResource(), a.GetPendingResource()), resources.Zero) {
			return 1
		}
		return 0
	}
	if !fair {
		if prio {
			return cmpPrio()
		}
		return 0
	}
	if prio {
		if c := cmpPrio(); c != 0 {
			return c
		}
		if c := cmpFair(); c != 0 {
			return sign(c)
		}
		return cmpPending()
	}
	if c := cmpFair(); c != 0 {
		return sign(c)
	}
	if c := cmpPrio(); c != 0 {
		return c
	}
	return cmpPending()
}

func sign(c int) int {
	switch {
	case c < 0:
		return -1
	case c > 0:
		return 1
	}
	return 0
}

func appOrder(q *objects.Queue, a, b *objects.Application) int {
	fair := q.SimSortType() == "fair"
	prio := q.IsPrioritySortEnabled()
	cmpPrio := func() int {
		pa, pb := a.GetAskMaxPriority(), b.GetAskMaxPriority()
		switch {
		case pa > pb:
			return -1
		case pa < pb:
			return 1
		}
		return 0
	}
	cmpTime := func() int {
		ta, tb := a.GetSubmissionTime(), b.GetSubmissionTime()
		switch {
		case ta.Before(tb):
			return -1
		case tb.Before(ta):
			return 1
		}
		return 0
	}
	cmpFair := func() int {
		return sign(resources.CompUsageRatio(a.GetAllocatedResource(), b.GetAllocatedResource(), q.GetGuaranteedResource()))
	}
	switch {
	case fair && prio:
		if c := cmpPrio(); c != 0 {
			return c
		}
		return cmpFair()
	case fair:
		if c := cmpFair(); c != 0 {
			return c
		}
		return cmpPrio()
	case prio:
		if c := cmpPrio(); c != 0 {
			return c
		}
		return cmpTime()
	default:
		if c := cmpTime(); c != 0 {
			return c
		}
		return cmpPrio()
	}
}

func (s *Sim) oracleC19(op Op) {
	pc := s.sc.Scheduler.GetClusterContext().GetPartition(s.part)
	if pc == nil {
		return
	}
	// sorting every queue at every step is wasteful: sample
	if s.orng.Intn(3) != 0 && op.Kind != "sched" {
		return
	}
	walkQueues(pc.SimRoot(), func(q *objects.Queue) {
		if q.IsLeafQueue() {
			var first []*objects.Application
			for k := 0; k < sortRepeats; k++ {
				apps := q.SimSortApplications()
				if len(apps) < 2 {
					return
				}
				s.probe("sort_checked")
				for i := 0; i+1 < len(apps); i++ {
					if appOrder(q, apps[i], apps[i+1]) > 0 {
						s.violate("C19", "applications-not-in-key-order", q.SimSortType(), "queue %s (policy %s, priority sort %v) tries application %s before %s although the documented keys order them the other way round", q.QueuePath, q.SimSortType(), q.IsPrioritySortEnabled(), apps[i].ApplicationID, apps[i+1].ApplicationID)
						return
					}
				}
				if k == 0 {
					first = apps
					continue
				}
				pos := map[string]int{}
				for i, a := range apps {
					pos[a.ApplicationID] = i
				}
				for i := 0; i < len(first); i++ {
					for j := i + 1; j < len(first); j++ {
						if appOrder(q, first[i], first[j]) != 0 && pos[first[i].ApplicationID] > pos[first[j].ApplicationID] {
							s.violate("C19", "application-order-depends-on-storage", q.SimSortType(), "queue %s: applications %s and %s change places when the same candidates are presented in another order", q.QueuePath, first[i].ApplicationID, first[j].ApplicationID)
							return
						}
					}
				}
			}
			return
		}
		var first []*objects.Queue
		for k := 0; k < sortRepeats; k++ {
			qs := q.SimSortQueues()
			if len(qs) < 2 {
				return
			}
			s.probe("sort_checked")
			s.probe("queue_sort_checked")
			for i := 0; i < len(qs); i++ {
				for j := i + 1; j < len(qs); j++ {
					if queueOrder(q, qs[i], qs[j]) > 0 && j == i+1 {
						s.violate("C19", "queues-not-in-key-order", q.SimSortType(), "queue %s (policy %s, priority sort %v) tries child %s before %s although the documented keys (priority, fair share against own guaranteed/maximum, pending) order them the other way round", q.QueuePath, q.SimSortType(), q.IsPrioritySortEnabled(), qs[i].QueuePath, qs[j].QueuePath)
						return
					}
				}
			}
			if k == 0 {
				first = qs
				continue
			}
			pos := map[string]int{}
			for i, c := range qs {
				pos[c.QueuePath] = i
			}
			for i := 0; i < len(first); i++ {
				for j := i + 1; j < len(first); j++ {
					if queueOrder(q, first[i], first[j]) != 0 && pos[first[i].QueuePath] > pos[first[j].QueuePath] {
						s.violate("C19", "queue-order-depends-on-storage", q.SimSortType(), "queue %s: children %s and %s change places when the same candidates are presented in another order", q.QueuePath, first[i].QueuePath, first[j].QueuePath)
						return
					}
				}
			}
		}
	})
	// asks of an application: priority first, then age
	for _, app := range pc.GetApplications() {
		reqs := app.SimSortedRequests()
		for i := 0; i+1 < len(reqs); i++ {
			a, b := reqs[i], reqs[i+1]
			if a.GetPriority() < b.GetPriority() || (a.GetPriority() == b.GetPriority() && a.GetCreateTime().After(b.GetCreateTime())) {
				s.violate("C19", "asks-not-in-key-order", "", "application %s tries ask %s (priority %d) before %s (priority %d, older or higher)", app.ApplicationID, a.GetAllocationKey(), a.GetPriority(), b.GetAllocationKey(), b.GetPriority())
				break
			}
		}
		if len(reqs) > 1 {
			s.probe("ask_order_checked")
		}
	}
	// node iterators: every registered node exactly once (reserved ones only in the full view), in score order
	nsp := objects.NewNodeSortingPolicy(pc.GetNodeSortingPolicyType().String(), pc.GetNodeSortingResourceWeights())
	for _, full := range []bool{true, false} {
		it := pc.GetNodeIterator()
		if full {
			it = pc.GetFullNodeIterator()
		}
		if it == nil {
			continue
		}
		seen := map[string]int{}
		last := math.Inf(-1)
		lastID := ""
		inOrder := true
		it.ForEachNode(func(n *objects.Node) bool {
			seen[n.NodeID]++
			sc := nsp.ScoreNode(n)
			if sc < last {
				inOrder = false
			}
			last = sc
			lastID = n.NodeID
			return true
		})
		_ = lastID
		s.probe("node_iteration_checked")
		for _, n := range pc.GetNodes() {
			want := 1
			if !full && n.IsReserved() {
				want = 0
			}
			if seen[n.NodeID] != want {
				s.violate("C19", "node-iteration-count", map[bool]string{true: "full", false: "unreserved"}[full], "the %s node iterator visits node %s %d times (reserved: %v), expected %d", map[bool]string{true: "full", false: "unreserved"}[full], n.NodeID, seen[n.NodeID], n.IsReserved(), want)
			}
		}
		if !inOrder {
			detail := ""
			if len(s.shim.Foreign) > 0 {
				// foreign allocations change the available resources (and the score) without re-keying the node
				detail = "after-foreign-allocation-change"
			}
			s.violate("C19", "node-iteration-order", detail, "the node iterator does not visit the nodes in non-decreasing score for the current utilisation")
		}
	}
}
