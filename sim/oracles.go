package sim

import (
	"fmt"
	"sort"
	"strings"
)

// runOracles is called at every quiescent point with the operation that was just executed, the
// core->shim events and the predicate calls of that step. s.pre / s.post are the snapshots around it.
func (s *Sim) runOracles(op Op, evs []SIEvent, preds []PredCall) {
	if s.post == nil || s.post.PartitionGone {
		return
	}
	s.shim.mu.Lock()
	defer s.shim.mu.Unlock()
	s.cache = nil
	if len(evs) > 0 {
		s.probes["protocol_events"] += len(evs)
	}
	s.oracleC03(op)
	s.oracleC01(op, evs, preds)
	s.oracleC09(op, evs)
	s.oracleC10(op, evs)
	s.oracleC11(op, evs)
	s.oracleMore(op, evs, preds)
	s.updateAdmitted(evs)
}

func countNew(evs []SIEvent) int {
	n := 0
	for _, e := range evs {
		if e.Kind == "new" {
			n++
		}
	}
	return n
}

// realHalves: allocations the core lists that the shim does not know as bound yet because they are the
// real side of a placeholder replacement whose confirmation is outstanding.
func (s *Sim) isInflightRealHalf(a *AllocSnap) bool {
	if a.Placeholder || a.ReleaseKey == "" {
		return false
	}
	ph := s.shim.Allocs[a.ReleaseKey]
	real := s.shim.Allocs[a.Key]
	if ph == nil || real == nil {
		return false
	}
	// the placeholder's release has been announced (or is about to be confirmed) and the real ask is still pending for the shim
	return real.Status == stPending && (ph.Status == stReleasing || ph.Status == stGone)
}

// ---- C03: conservation ---------------------------------------------------------------------------

func (s *Sim) oracleC03(op Op) {
	p := s.post
	// applications
	for _, id := range sortedKeys(p.Apps) {
		a := p.Apps[id]
		sumA, sumPh, sumPend := Res{}, Res{}, Res{}
		for _, k := range sortedKeys(a.Allocs) {
			al := a.Allocs[k]
			if al.Placeholder {
				sumPh.AddTo(al.Res)
			} else {
				sumA.AddTo(al.Res)
			}
		}
		for _, k := range sortedKeys(a.Asks) {
			if ask := a.Asks[k]; !ask.Allocated {
				sumPend.AddTo(ask.Res)
			}
		}
		if !a.Alloc.Eq(sumA) {
			s.violate("C03", "app-allocated", "", "application %s reports allocated %s, its allocations sum to %s", id, a.Alloc, sumA)
		}
		if !a.PhAlloc.Eq(sumPh) {
			s.violate("C03", "app-placeholder", "", "application %s reports placeholder %s, its placeholder allocations sum to %s", id, a.PhAlloc, sumPh)
		}
		if !a.Pending.Eq(sumPend) {
			s.violate("C03", "app-pending", "", "application %s reports pending %s, its unallocated asks sum to %s", id, a.Pending, sumPend)
		}
		if a.Alloc.HasNegative() || a.PhAlloc.HasNegative() || a.Pending.HasNegative() {
			s.violate("C03", "negative", "app", "application %s has a negative total: alloc %s ph %s pending %s", id, a.Alloc, a.PhAlloc, a.Pending)
		}
	}
	// queues: leaf = sum of applications, parent = sum of children (a queue whose type was flipped by a reload
	// while in use holds both for a while: it answers for both)
	for _, path := range sortedKeys(p.Queues) {
		q := p.Queues[path]
		sumA, sumP := Res{}, Res{}
		for _, id := range q.Apps {
			if a := p.Apps[id]; a != nil {
				sumA.AddTo(a.Alloc)
				sumA.AddTo(a.PhAlloc)
				sumP.AddTo(a.Pending)
			} else {
				s.violate("C03", "queue-app-not-live", "", "queue %s lists application %s which the partition does not list as live", path, id)
			}
		}
		for _, c := range q.Children {
			if cq := p.Queues[c]; cq != nil {
				sumA.AddTo(cq.Alloc)
				sumP.AddTo(cq.Pending)
			}
		}
		if len(q.Apps) > 0 && len(q.Children) > 0 {
			s.probe("queue_with_apps_and_children")
		}
		if !q.Alloc.Eq(sumA) {
			what := "children"
			if q.Leaf {
				what = "applications"
			}
			s.violate("C03", "queue-allocated", what, "queue %s reports allocated %s, its %s sum to %s", path, q.Alloc, what, sumA)
		}
		if !q.Pending.Eq(sumP) {
			what := "children"
			if q.Leaf {
				what = "applications"
			}
			s.violate("C03", "queue-pending", what, "queue %s reports pending %s, its %s sum to %s", path, q.Pending, what, sumP)
		}
		if q.Alloc.HasNegative() || q.Pending.HasNegative() || q.Preempting.HasNegative() {
			s.violate("C03", "negative", "queue", "queue %s has a negative total: alloc %s pending %s preempting %s", path, q.Alloc, q.Pending, q.Preempting)
		}
		// preempting = marked victims
		if q.Leaf || len(q.Children) > 0 {
			// (a queue whose type a reload flipped under load reports as a leaf and still has children: the marked
			// victims of everything at or below the queue count, as the core books them on the whole path)
			sumPre := Res{}
			for _, id := range sortedKeys(p.Apps) {
				a := p.Apps[id]
				if a.Queue != path && !strings.HasPrefix(a.Queue, path+".") {
					continue
				}
				for _, k := range sortedKeys(a.Allocs) {
					if al := a.Allocs[k]; al.Preempted {
						sumPre.AddTo(al.Res)
					}
				}
			}
			if !q.Preempting.Eq(sumPre) {
				s.violate("C08", "preempting-sum", "", "queue %s reports preempting %s, its marked victims sum to %s", path, q.Preempting, sumPre)
			}
		}
	}
	// every live application is in the queue it names
	for _, id := range sortedKeys(p.Apps) {
		a := p.Apps[id]
		q := p.Queues[a.Queue]
		if q == nil {
			s.violate("C03", "app-queue-missing", "", "application %s (state %s) names queue %s which does not exist", id, a.State, a.Queue)
			continue
		}
		found := false
		for _, x := range q.Apps {
			if x == id {
				found = true
			}
		}
		if !found && !terminalState(a.State) {
			s.violate("C03", "app-not-in-queue", a.State, "application %s (state %s) is not listed by its queue %s", id, a.State, a.Queue)
		}
	}
	// nodes vs applications
	nodeSum := Res{}
	halves := Res{}
	orphans := Res{}
	failedOrphans := Res{}
	seenOnNode := map[string]string{}
	for _, nid := range sortedKeys(p.Nodes) {
		n := p.Nodes[nid]
		sum := Res{}
		for _, k := range sortedKeys(n.Allocs) {
			al := n.Allocs[k]
			sum.AddTo(al.Res)
			seenOnNode[k] = nid
			app := p.Apps[al.App]
			if app == nil {
				st := "app-unknown"
				if sa := s.shim.Apps[al.App]; sa != nil && sa.Status == "removed" {
					// allocated while (or after) the application was being removed
					s.shim.taint(al.App, "removal-race")
				}
				if d := p.Done[al.App]; d != nil {
					st = "app-" + d.State
					if d.State == "Failed" || d.State == "Failing" {
						failedOrphans.AddTo(al.Res)
					}
				}
				orphans.AddTo(al.Res)
				s.violate("C03", "node-alloc-orphan", st, "node %s holds allocation %s of application %s which is not live (%s)", nid, k, al.App, st)
				continue
			}
			if _, ok := app.Allocs[k]; !ok {
				if s.isInflightRealHalf(al) {
					halves.AddTo(al.Res)
					s.probe("inflight_cross_node_swap")
				} else {
					s.violate("C03", "node-alloc-unlisted", "", "node %s holds allocation %s which application %s does not list", nid, k, al.App)
				}
			}
		}
		if !n.Alloc.Eq(sum) {
			s.violate("C01", "node-allocated-sum", "", "node %s reports allocated %s, the allocations bound to it sum to %s", nid, n.Alloc, sum)
		}
		occ := Res{}
		for _, k := range sortedKeys(n.Foreign) {
			occ.AddTo(n.Foreign[k].Res)
		}
		if !n.Occupied.Eq(occ) {
			s.violate("C01", "node-occupied-sum", "", "node %s reports occupied %s, its foreign allocations sum to %s", nid, n.Occupied, occ)
		}
		want := n.Cap.Sub(n.Alloc).Sub(n.Occupied)
		if !n.Avail.Eq(want) {
			s.violate("C01", "node-available", "", "node %s reports available %s, capacity-allocated-occupied is %s (cap %s alloc %s occ %s)", nid, n.Avail, want, n.Cap, n.Alloc, n.Occupied)
		}
		if n.Alloc.HasNegative() || n.Occupied.HasNegative() {
			s.violate("C03", "negative", "node", "node %s has a negative total: alloc %s occupied %s", nid, n.Alloc, n.Occupied)
		}
		nodeSum.AddTo(n.Alloc)
	}
	for _, id := range sortedKeys(p.Apps) {
		a := p.Apps[id]
		for _, k := range sortedKeys(a.Allocs) {
			al := a.Allocs[k]
			nid, ok := seenOnNode[k]
			if !ok {
				if n := s.shim.Nodes[al.Node]; n != nil && n.Status == "removed" {
					// bound to a node while (or after) the node was being removed: requests on different channels raced
					s.shim.taint(id, "removal-race")
				}
				s.violate("C03", "app-alloc-not-on-node", "", "application %s lists allocation %s on node %s, no node holds it", id, k, al.Node)
			} else if nid != al.Node {
				s.violate("C03", "app-alloc-wrong-node", "", "application %s lists allocation %s on node %s, node %s holds it", id, k, al.Node, nid)
			}
		}
	}
	if root := p.Queues["root"]; root != nil {
		if !root.Alloc.Add(halves).Eq(nodeSum) {
			detail := ""
			if !failedOrphans.IsZero() && root.Alloc.Add(halves).Add(failedOrphans).Eq(nodeSum) {
				detail = "orphans-of-failed-app"
			} else if !orphans.IsZero() && root.Alloc.Add(halves).Add(orphans).Eq(nodeSum) {
				detail = "orphans"
			}
			s.violate("C03", "root-vs-nodes", detail, "root allocated %s (+ in-flight real halves %s) differs from the sum of node allocated %s", root.Alloc, halves, nodeSum)
		}
	}
	// partition counters
	nAlloc, nPh := 0, 0
	for _, a := range p.Apps {
		for _, al := range a.Allocs {
			nAlloc++
			if al.Placeholder {
				nPh++
			}
		}
	}
	// the partition's own counters are not among the books the statement lists: drift is recorded, not raised
	if p.PartAllocs != nAlloc {
		s.probe("partition_alloc_counter_drift")
	}
	if p.PartPh != nPh {
		s.probe("partition_placeholder_counter_drift")
	}
	if nPh > 0 && p.PartPh == 0 {
		s.violate("C06", "placeholder-counter-zero", "", "%d placeholder allocations exist but the partition placeholder counter is 0 (replacement will never be tried)", nPh)
	}
	// total partition resource = sum of node capacities
	capSum := Res{}
	for _, n := range p.Nodes {
		capSum.AddTo(n.Cap)
	}
	if !p.Total.Eq(capSum) {
		s.violate("C02", "root-capacity", "", "partition total %s differs from the sum of registered node capacities %s", p.Total, capSum)
	}
	// shim view vs core view of what is bound (quiescent: nothing in flight)
	for _, k := range s.shim.sortedAllocKeys() {
		m := s.shim.Allocs[k]
		if !m.live() {
			continue
		}
		if n := s.shim.Nodes[m.Node]; n != nil && n.Status == "removed" {
			if ca := p.Apps[m.App]; ca != nil && ca.Allocs[k] != nil {
				s.shim.taint(m.App, "removal-race")
			}
			s.violate("C04", "bound-on-removed-node", "", "the shim still holds %s as bound on node %s which it removed: the core never released it", k, m.Node)
			continue
		}
		if a := s.shim.Apps[m.App]; a != nil && a.Status == "removed" {
			s.violate("C04", "bound-of-removed-app", "", "the shim still holds %s as bound for application %s which it removed: the core never released it", k, m.App)
			continue
		}
		app := p.Apps[m.App]
		if app == nil {
			st := "app-unknown"
			if d := p.Done[m.App]; d != nil {
				st = "app-" + d.State
			}
			s.violate("C03", "shim-alloc-no-app", st, "the shim holds %s as bound for %s, the core has no such live application (%s)", k, m.App, st)
			continue
		}
		al, ok := app.Allocs[k]
		if !ok {
			s.violate("C03", "shim-alloc-missing", "", "the shim holds %s as bound on %s, application %s does not list it", k, m.Node, m.App)
			continue
		}
		if al.Node != m.Node {
			s.violate("C03", "shim-alloc-node", "", "the shim holds %s on %s, the core on %s", k, m.Node, al.Node)
		}
		if !al.Res.Eq(m.Res) {
			s.violate("C03", "shim-alloc-res", "", "the shim holds %s with %s, the core with %s", k, m.Res, al.Res)
		}
	}
	// an ask the shim still holds as outstanding is an ask the core still has
	for _, k := range s.shim.sortedAllocKeys() {
		m := s.shim.Allocs[k]
		if m.Status != stPending {
			continue
		}
		sa := s.shim.Apps[m.App]
		ca := p.Apps[m.App]
		if sa == nil || sa.Status != "accepted" || ca == nil {
			continue
		}
		if _, ok := ca.Asks[k]; !ok {
			s.violate("C04", "outstanding-ask-lost", ca.State, "the shim holds ask %s of application %s (%s) as outstanding, the core has no such ask: it was dropped without a rejection or release the shim could act on", k, m.App, ca.State)
		}
	}
	// a rejected item leaves no trace
	for _, id := range sortedKeys(s.shim.Apps) {
		if a := s.shim.Apps[id]; a.Status == "rejected" {
			if ca := p.Apps[id]; ca != nil {
				s.violate("C04", "rejected-app-left-trace", "", "application %s was answered with a rejection (%s) but the partition lists it as live in state %s", id, a.RejectMsg, ca.State)
			}
			for _, path := range sortedKeys(p.Queues) {
				if contains(p.Queues[path].Apps, id) {
					s.violate("C04", "rejected-app-left-trace", "queue", "application %s was answered with a rejection but queue %s lists it", id, path)
				}
			}
		}
	}
	for _, id := range sortedKeys(s.shim.Nodes) {
		if n := s.shim.Nodes[id]; n.Status == "rejected" && n.Answers == 1 {
			if _, ok := p.Nodes[id]; ok {
				s.violate("C04", "rejected-node-left-trace", "", "node %s was answered with a rejection but the partition lists it", id)
			}
		}
	}
	for _, id := range sortedKeys(p.Apps) {
		for _, k := range sortedKeys(p.Apps[id].Allocs) {
			al := p.Apps[id].Allocs[k]
			m := s.shim.Allocs[k]
			if m == nil || !m.live() {
				st := "unknown"
				if m != nil {
					st = m.Status
					if m.ReleasedDuringSwap {
						st = "ask-released-during-swap"
					}
				}
				s.violate("C03", "core-alloc-not-in-shim", st, "application %s lists allocation %s on %s, the shim holds it as %s", id, k, al.Node, st)
			}
		}
	}
}

func terminalState(st string) bool {
	switch st {
	case "Completed", "Failed", "Rejected", "Expired":
		return true
	}
	return false
}

// ---- C01: node over-commit -----------------------------------------------------------------------

func (s *Sim) oracleC01(op Op, evs []SIEvent, preds []PredCall) {
	if op.Kind != "sched" || s.pre == nil {
		return
	}
	news := 0
	for _, e := range evs {
		if e.Kind != "new" {
			continue
		}
		news++
		m := s.shim.Allocs[e.Key]
		if m == nil {
			continue
		}
		s.checkBinding("C01", e.Key, e.Node, m, preds, false)
	}
	if news > 1 {
		s.probe("multi_alloc_cycle")
	}
	// replacement in place: decided in this step (the placeholder is announced as replaced), the real allocation
	// takes the placeholder's spot on the same node once the shim confirms: it must fit in what the node has without
	// the placeholder, and the node must be the one the ask requires
	for _, e := range evs {
		if e.Kind != "released" || e.Type != "PLACEHOLDER_REPLACED" {
			continue
		}
		app := s.post.Apps[e.App]
		if app == nil || app.Allocs[e.Key] == nil || app.Allocs[e.Key].ReleaseKey == "" {
			continue
		}
		cph := app.Allocs[e.Key]
		m := s.shim.Allocs[cph.ReleaseKey]
		if m == nil {
			continue
		}
		if pa := s.pre.Apps[e.App]; pa != nil && pa.Allocs[e.Key] != nil && pa.Allocs[e.Key].ReleaseKey != "" {
			continue // decided earlier, announced again
		}
		onOther := false
		for _, nid := range sortedKeys(s.post.Nodes) {
			if al := s.post.Nodes[nid].Allocs[m.Key]; al != nil && nid != cph.Node {
				onOther = true
			}
		}
		if onOther {
			continue // checked below
		}
		node := cph.Node
		mn := s.shim.Nodes[node]
		if mn == nil {
			continue
		}
		s.probe("in_place_swap_checked")
		usage := Res{}
		for _, o := range s.shim.Allocs {
			if o.Key != m.Key && o.Key != e.Key && o.live() && o.Node == node {
				usage.AddTo(o.Res)
			}
		}
		if pn := s.pre.Nodes[node]; pn != nil {
			for _, k := range sortedKeys(pn.Allocs) {
				if al := pn.Allocs[k]; s.isInflightRealHalf(al) && k != m.Key {
					usage.AddTo(al.Res)
				}
			}
		}
		free := mn.Cap.Sub(s.shim.nodeForeign(node)).Sub(usage)
		// on a node that an external change left over-committed a swap that takes no more than the placeholder held is
		// no new over-commit (available only ever goes negative through external changes)
		if ph := s.shim.Allocs[e.Key]; !m.Res.FitsIn(free) && (ph == nil || !m.Res.FitsIn(ph.Res)) {
			s.violate("C01", "overcommit", "in-place-swap", "scheduler replaces placeholder %s on node %s by %s %s: without the placeholder the node has only %s free (cap %s foreign %s allocated %s)", e.Key, node, m.Key, m.Res, free, mn.Cap, s.shim.nodeForeign(node), usage)
		}
		if m.RequiredNode != "" && m.RequiredNode != node {
			s.violate("C01", "required-node", "in-place-swap", "ask %s requires node %s, the scheduler swaps it for placeholder %s on %s", m.Key, m.RequiredNode, e.Key, node)
		}
	}
	// replacement on another node: the real allocation lands on a node in this step, announced later
	for _, nid := range sortedKeys(s.post.Nodes) {
		n := s.post.Nodes[nid]
		for _, k := range sortedKeys(n.Allocs) {
			al := n.Allocs[k]
			if al.ReleaseKey == "" || al.Placeholder {
				continue
			}
			if pn := s.pre.Nodes[nid]; pn != nil {
				if _, was := pn.Allocs[k]; was {
					continue
				}
			}
			// new real half
			if al.ReleaseNode != nid {
				s.probe("replacement_on_other_node")
				if m := s.shim.Allocs[k]; m != nil {
					s.checkBinding("C01", k, nid, m, preds, true)
				}
			}
		}
	}
}

// checkBinding checks one scheduler decision against the pre-step world.
func (s *Sim) checkBinding(prop, key, node string, m *MAlloc, preds []PredCall, otherNodeSwap bool) {
	mn := s.shim.Nodes[node]
	pn := s.pre.Nodes[node]
	if mn == nil || mn.Status != "accepted" || pn == nil {
		s.violate(prop, "bind-unregistered-node", "", "scheduler bound %s to node %s which is not registered", key, node)
		return
	}
	if !mn.Schedulable || !pn.Schedulable {
		kind := "ordinary-ask"
		if m.RequiredNode != "" {
			kind = "required-node-ask"
		}
		s.violate(prop, "bind-unschedulable-node", kind, "scheduler bound %s (required node %q) to node %s which is not schedulable", key, m.RequiredNode, node)
	}
	// capacity - foreign - allocated, from the shim's books before this step
	usage := Res{}
	for _, o := range s.shim.Allocs {
		if o.Key != key && o.live() && o.Node == node && o.BoundStep != s.step {
			usage.AddTo(o.Res)
		}
	}
	// real halves already sitting on the node (decided earlier, announced later) count as allocated too
	for _, k := range sortedKeys(pn.Allocs) {
		if al := pn.Allocs[k]; s.isInflightRealHalf(al) && k != key {
			usage.AddTo(al.Res)
		}
	}
	free := mn.Cap.Sub(s.shim.nodeForeign(node)).Sub(usage)
	s.probe("binding_checked")
	for t, v := range m.Res {
		if v > 0 && free[t] == v {
			s.probe("node_full")
			break
		}
	}
	if !m.Res.FitsIn(free) {
		s.violate(prop, "overcommit", "", "scheduler bound %s %s to node %s with only %s free (cap %s foreign %s allocated %s)", key, m.Res, node, free, mn.Cap, s.shim.nodeForeign(node), usage)
	}
	if m.RequiredNode != "" {
		if m.RequiredNode != node {
			s.violate(prop, "required-node", "", "ask %s requires node %s, scheduler bound it to %s", key, m.RequiredNode, node)
		}
		if post := s.post.Nodes[node]; post != nil {
			for _, rk := range sortedKeys(post.Reserved) {
				if rk != key && !post.ReservedReq[rk] {
					s.violate(prop, "required-node-left-reservation", "", "required-node ask %s bound to %s which still carries the ordinary reservation of %s", key, node, rk)
				}
			}
		}
	} else {
		// a reservation that the same cycle cleaned up first (its ask was allocated or removed) does not count: the
		// node must have been reserved for the other ask before and after the step
		for _, rk := range sortedKeys(pn.Reserved) {
			if post := s.post.Nodes[node]; rk != key && post != nil && post.Reserved[rk] != "" {
				s.violate(prop, "reserved-for-other", "", "scheduler bound %s to node %s which was and still is reserved for %s", key, node, rk)
				break
			}
		}
	}
	ok := false
	for _, pc := range preds {
		if pc.Key == key && pc.Node == node && pc.Allocate && pc.OK {
			ok = true
		}
	}
	if !ok && !s.shim.minimal {
		s.violate(prop, "predicate", "", "scheduler bound %s to node %s without an accepting predicate call in that cycle", key, node)
	}
}

// ---- C09: reservations -----------------------------------------------------------------------------

type resTuple struct{ app, ask, node string }

func (s *Sim) oracleC09(op Op, evs []SIEvent) {
	p := s.post
	fromApps := map[resTuple]bool{}
	perApp := map[string]int{}
	for _, id := range sortedKeys(p.Apps) {
		a := p.Apps[id]
		for _, k := range a.ResKeys {
			node := a.Reservations[k]
			fromApps[resTuple{id, k, node}] = true
			perApp[id]++
			ask := a.Asks[k]
			if ask == nil {
				s.violate("C09", "reservation-without-ask", "", "application %s holds a reservation for %s on %s but no such ask is outstanding", id, k, node)
			} else if ask.Allocated {
				s.violate("C09", "reservation-of-allocated-ask", "", "application %s holds a reservation for %s on %s but the ask is allocated", id, k, node)
			}
			if _, ok := p.Nodes[node]; !ok {
				s.violate("C09", "reservation-on-missing-node", "", "application %s holds a reservation for %s on node %s which is not registered", id, k, node)
			}
		}
	}
	fromNodes := map[resTuple]bool{}
	for _, nid := range sortedKeys(p.Nodes) {
		n := p.Nodes[nid]
		normal := 0
		for _, k := range sortedKeys(n.Reserved) {
			fromNodes[resTuple{n.Reserved[k], k, nid}] = true
			if !n.ReservedReq[k] {
				normal++
			}
		}
		if len(n.Reserved) > 1 && normal > 0 {
			s.violate("C09", "node-multiple-reservations", "", "node %s carries %d reservations and %d of them are not required-node", nid, len(n.Reserved), normal)
		}
		if len(n.Reserved) != len(n.ResKeys) {
			s.violate("C09", "node-reservation-keys", "", "node %s lists %d reservation keys but %d reservation objects", nid, len(n.ResKeys), len(n.Reserved))
		}
	}
	for t := range fromApps {
		if !fromNodes[t] {
			s.violate("C09", "app-node-view-differ", "app-only", "application %s holds a reservation for %s on %s which the node does not list", t.app, t.ask, t.node)
		}
	}
	for t := range fromNodes {
		if !fromApps[t] {
			detail := "node-only"
			if p.Apps[t.app] == nil {
				detail = "node-only-app-gone"
				if d := p.Done[t.app]; d != nil {
					detail = "node-only-app-" + d.State
				}
			}
			s.violate("C09", "app-node-view-differ", detail, "node %s lists a reservation of %s for %s which the application does not hold", t.node, t.app, t.ask)
		}
	}
	// queue view
	total := 0
	for _, path := range sortedKeys(p.Queues) {
		q := p.Queues[path]
		if !q.Leaf {
			continue
		}
		for _, id := range sortedKeys(q.Reserved) {
			if q.Reserved[id] != perApp[id] {
				detail := ""
				if p.Apps[id] == nil {
					detail = "app-gone"
					if d := p.Done[id]; d != nil {
						detail = "app-" + d.State
					}
				}
				s.violate("C09", "queue-view-differ", detail, "queue %s counts %d reservations for %s, the application holds %d", path, q.Reserved[id], id, perApp[id])
			}
		}
		for _, id := range q.Apps {
			if perApp[id] > 0 && q.Reserved[id] == 0 {
				s.violate("C09", "queue-view-differ", "missing", "application %s holds %d reservations, its queue %s counts none", id, perApp[id], path)
			}
		}
	}
	for _, n := range perApp {
		total += n
	}
	if total > 0 {
		s.probe("reservation_exists")
	}
	if total > 0 && p.PartRes == 0 {
		s.violate("C09", "partition-counter-zero", "", "%d reservations exist but the partition reservation counter is 0 (reserved asks will never be tried)", total)
	}
	if p.PartRes != total {
		// the statement only promises "never zero while one exists": drift upwards is recorded, not raised
		s.probe("reservation_counter_drift")
	}
}

// ---- C10: application life cycle -----------------------------------------------------------------

var allowedEdges = map[string][]string{
	"New":        {"Accepted", "Rejected", "Failing", "Resuming"},
	"Accepted":   {"Running", "Completing", "Failing", "Resuming"},
	"Running":    {"Completing", "Failing"},
	"Completing": {"Running", "Completed"},
	"Failing":    {"Failed"},
	"Resuming":   {"Accepted"},
	"Completed":  {"Expired"},
	"Failed":     {"Expired"},
	"Rejected":   {"Expired"},
}

func edgeOK(from, to string) bool {
	for _, t := range allowedEdges[from] {
		if t == to {
			return true
		}
	}
	return false
}

func (s *Sim) oracleC10(op Op, evs []SIEvent) {
	p := s.post
	check := func(a *AppSnap) {
		prev := "New"
		for i, st := range a.StateLog {
			if i == 0 && st == "New" {
				continue
			}
			if !edgeOK(prev, st) {
				s.violate("C10", "illegal-transition", prev+"->"+st, "application %s state log %v: %s -> %s is not a documented edge", a.ID, a.StateLog, prev, st)
				break
			}
			prev = st
		}
		if n := len(a.StateLog); n > 0 && a.StateLog[n-1] != a.State {
			s.violate("C10", "state-log-mismatch", "", "application %s reports state %s, its state log ends in %s", a.ID, a.State, a.StateLog[n-1])
		}
	}
	for _, id := range sortedKeys(p.Apps) {
		a := p.Apps[id]
		check(a)
		real := 0
		for _, al := range a.Allocs {
			if !al.Placeholder {
				real++
			}
		}
		pending := 0
		for _, ask := range a.Asks {
			if !ask.Allocated {
				pending++
			}
		}
		if a.State == "Completed" && (real > 0 || pending > 0) {
			s.violate("C10", "completed-with-work", "", "application %s is Completed with %d real allocations and %d outstanding asks", id, real, pending)
		}
		if a.State == "Completing" && pending > 0 {
			// an ask takes a Completing application back to Running at once: Completing with an outstanding ask is an
			// application that will complete under it
			s.violate("C10", "completing-with-asks", "", "application %s is Completing and has %d outstanding asks", id, pending)
		}
		if a.State == "Completing" && real > 0 {
			// Completing is the state of an application without work (it completes when left alone): one that holds a
			// bound real allocation is on its way to Completed with that allocation
			s.violate("C10", "completing-with-allocation", "", "application %s is Completing and holds %d real allocations", id, real)
		}
		if a.State == "Running" && len(a.Allocs) == 0 && pending == 0 {
			s.violate("C10", "idle-not-completing", "", "application %s is Running with no allocations and no outstanding asks (should be Completing)", id)
		}
	}
	// applications that have left the partition as Completed took nothing with them
	for _, id := range sortedKeys(p.Done) {
		a := p.Done[id]
		if a.State != "Completed" || a.Where != "completed" {
			continue
		}
		real, pending := 0, 0
		for _, al := range a.Allocs {
			if !al.Placeholder {
				real++
			}
		}
		for _, ask := range a.Asks {
			if !ask.Allocated {
				pending++
			}
		}
		if real > 0 || pending > 0 {
			s.violate("C10", "completed-with-work", "left", "application %s completed and left the partition with %d real allocations and %d outstanding asks", id, real, pending)
		}
	}
	for _, e := range evs {
		if e.Kind == "appUpdated" {
			switch e.Type {
			case "Completed":
				s.probe("app_completed")
			case "Completing":
				s.probe("app_completing")
			case "Failing", "Failed":
				s.probe("app_failed")
			case "Resuming":
				s.probe("app_resuming")
			}
		}
	}
	for _, id := range sortedKeys(p.Done) {
		a := p.Done[id]
		check(a)
		if a.State == "Completed" || a.State == "Failed" || a.State == "Expired" {
			if len(a.Allocs) > 0 {
				s.violate("C10", "terminated-with-allocations", a.State, "application %s is %s and still lists %d allocations", id, a.State, len(a.Allocs))
			}
		}
	}
	// the reported stream (application-update messages): consecutive reports must be connected by documented edges
	for _, e := range evs {
		if e.Kind != "appUpdated" {
			continue
		}
		app := s.shim.Apps[e.App]
		if app == nil {
			continue
		}
		n := len(app.States)
		if n >= 2 {
			from, to := app.States[n-2], app.States[n-1]
			if app.dupSubmitted() && (from == "Expired" || to == "Expired") {
				// the id was submitted twice: the refused duplicate is a second object under the same id (it sits in the
				// rejected list and expires there); its report is not a state of the application that runs
				s.probe("report_of_rejected_duplicate")
				continue
			}
			if from != to && !reachable(from, to, 3) {
				s.violate("C10", "reported-transition", from+"->"+to, "application %s reported %s after %s: not reachable through documented edges", e.App, to, from)
			}
		}
	}
	// terminated applications are gone from their queue
	for _, path := range sortedKeys(p.Queues) {
		for _, id := range p.Queues[path].Apps {
			if a := p.Done[id]; a != nil && p.Apps[id] == nil {
				s.violate("C10", "terminated-in-queue", a.State, "application %s (%s) is terminated but still listed by queue %s", id, a.State, path)
			}
		}
	}
}

// reachable: is there a path of at most depth documented edges (not every transition is reported to the shim).
func reachable(from, to string, depth int) bool {
	if from == to {
		return true
	}
	if depth == 0 {
		return false
	}
	for _, t := range allowedEdges[from] {
		if t == to || reachable(t, to, depth-1) {
			return true
		}
	}
	return false
}

// ---- C11: max-applications gate -------------------------------------------------------------------

func (s *Sim) oracleC11(op Op, evs []SIEvent) {
	p := s.post
	// counters
	for _, path := range sortedKeys(p.Queues) {
		q := p.Queues[path]
		running := 0
		liveBelow := map[string]bool{}
		for _, id := range sortedKeys(p.Apps) {
			a := p.Apps[id]
			if a.Queue == path || strings.HasPrefix(a.Queue, path+".") {
				// only applications the queue tree still lists
				if lq := p.Queues[a.Queue]; lq != nil && contains(lq.Apps, id) {
					liveBelow[id] = true
					if a.State == "Running" {
						running++
					}
				}
			}
		}
		if q.MaxApps > 0 && q.Running > q.MaxApps {
			// above the maximum is only legal as the left-over of a maximum that was lowered (reload, or a tag of a later
			// application on a dynamic queue) under applications already running: the count must not have gone up
			var preRunning uint64
			if s.pre != nil {
				if pq := s.pre.Queues[path]; pq != nil {
					preRunning = pq.Running
				}
			}
			if q.Running > preRunning {
				s.violate("C11", "running-above-max", "", "queue %s reports %d running applications (was %d), maximum is %d", path, q.Running, preRunning, q.MaxApps)
			} else {
				s.probe("running_above_lowered_max")
			}
		}
		if int(q.Running) > running {
			s.violate("C11", "running-above-actual", "", "queue %s reports %d running applications, only %d applications below it are Running", path, q.Running, running)
		}
		for _, id := range q.Allocating {
			if !liveBelow[id] {
				s.violate("C11", "allocating-not-live", "", "queue %s lists %s as allocating, it is not a live application of its subtree", path, id)
			}
		}
		if len(liveBelow) == 0 && (q.Running != 0 || len(q.Allocating) != 0) {
			s.violate("C11", "empty-queue-counters", "", "queue %s has no applications but reports running=%d allocating=%v", path, q.Running, q.Allocating)
		}
	}
	if op.Kind != "sched" || s.pre == nil {
		return
	}
	for _, e := range evs {
		if e.Kind != "new" {
			continue
		}
		pa := s.pre.Apps[e.App]
		if pa == nil {
			continue
		}
		if pa.State == "Running" {
			continue
		}
		leaf := pa.Queue
		counted := false
		for _, qp := range ancestors(leaf) {
			if q := s.pre.Queues[qp]; q != nil && contains(q.Allocating, e.App) {
				counted = true
			}
		}
		if counted {
			continue
		}
		s.probe("first_allocation_gate")
		for _, qp := range ancestors(leaf) {
			q := s.pre.Queues[qp]
			if q == nil || q.MaxApps == 0 {
				continue
			}
			s.probe("first_allocation_gate_limited")
			if int(q.Running)+len(q.Allocating)+1 > int(q.MaxApps) {
				s.violate("C11", "gate", "", "application %s (state %s) got its first allocation %s while queue %s had running=%d allocating=%d of max %d", e.App, pa.State, e.Key, qp, q.Running, len(q.Allocating), q.MaxApps)
			}
		}
	}
}

func contains(xs []string, x string) bool {
	for _, y := range xs {
		if y == x {
			return true
		}
	}
	return false
}

func fmtEvents(evs []SIEvent) string {
	var parts []string
	for _, e := range evs {
		parts = append(parts, fmt.Sprintf("%s(%s %s %s %s)", e.Kind, e.App, e.Key, e.Node, e.Type))
	}
	sort.Strings(parts)
	return strings.Join(parts, " ")
}
