#!/bin/bash
# Builds the framework tools from files on disk only (module cache; no network).
set -e
export GOFLAGS=-mod=mod GOPROXY=off
mkdir -p /verif/bin /verif/evidence /verif/replays
(cd /verif/rewrite && go build -o /verif/bin/rewrite .)
(cd /verif/vcheck && go build -o /verif/bin/vcheck .)
echo "setup done"
