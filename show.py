import json,sys
r=json.load(open(sys.argv[1]))
keys=['steps','quiescents','decisions','fast_passes','parks','locks','sched_sig','sim_ms','wall_ms','faults','probes','nstates','bound','si_events','notes','deadlock','stuck','goroutines']
print({k:r.get(k) for k in keys})
seen={}
for v in (r['violations'] or []):
    seen.setdefault(v['sig'],[]).append(v)
for s,vs in seen.items():
    print(len(vs), s, '| step',vs[0]['step'],'|', vs[0]['msg'][:300])
print('violations',len(r['violations'] or []))
if len(sys.argv)>2:
    for i,o in enumerate(r['ops']): print(i+1,json.dumps(o))
