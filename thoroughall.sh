#!/bin/bash
# runs every thorough check once on the current tree with a reduced wall-clock budget (validation of the commands)
export GOFLAGS=-mod=mod GOPROXY=off
cd /verif
B=${1:-600}
for p in C03 C05 C14 C10 C01 C06 C13 C12 C16 C17 C02 C04 C07 C08 C09 C11 C15 C19 C20; do
  t0=$(date +%s)
  bin/vcheck $p --tier thorough --budget $B > /var/tmp/thorough_$p.log 2>&1; rc=$?
  echo "$p exit=$rc $(( $(date +%s)-t0 ))s $(grep -c '^VIOLATION' /var/tmp/thorough_$p.log) violations, $(grep -c '^KNOWN' /var/tmp/thorough_$p.log) known | $(tail -1 /var/tmp/thorough_$p.log | cut -c1-220)"
done
