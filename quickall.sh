#!/bin/bash
# runs every quick check once on the current tree (evidence goes to /verif/evidence); summary on stdout
export GOFLAGS=-mod=mod GOPROXY=off
cd /verif
for p in C01 C02 C03 C04 C05 C06 C07 C08 C09 C10 C11 C12 C13 C14 C15 C16 C17 C19 C20; do
  t0=$(date +%s)
  bin/vcheck $p --tier quick > /var/tmp/quick_$p.log 2>&1; rc=$?
  echo "$p exit=$rc $(( $(date +%s)-t0 ))s $(grep -c '^VIOLATION' /var/tmp/quick_$p.log) violations, $(grep -c '^KNOWN' /var/tmp/quick_$p.log) known | $(tail -1 /var/tmp/quick_$p.log | cut -c1-200)"
done
