#!/bin/bash
# showreplay.sh <replay.json> : prints the minimised ops and a step trace (needs a built sim in /var/tmp/s1)
python3 - "$1" <<'PY'
import json,sys
r=json.load(open(sys.argv[1]))
print(r['signature'],'|',r['message'][:300])
c=r['cfg']; print({k:c[k] for k in c if k!='ops'})
for o in c.get('ops',[]): print('   ',json.dumps(o))
json.dump(c,open('/var/tmp/s1/rp.json','w'))
PY
cd /var/tmp/s1 && VERIF_TRACE=1 VERIF_RUN=rp.json VERIF_OUT=x.json ./sim.test -test.run TestSim 2>&1 | cut -c1-360 | head -${2:-40}
