package main

import (
	"encoding/json"
	"fmt"
	"os"
	"path/filepath"
	"sort"
	"strings"
	"time"
)

type found struct {
	sig   string
	prop  string
	msg   string
	out   *runOut
	count int
}

type tally struct {
	runs, okRuns, crashed int
	steps, quiescents     int
	decisions, parks      uint64
	fast                  uint64
	simMs                 int64
	bound, siEvents       int
	faults, probes        map[string]int
	variants              map[string]int
	policies              map[string]int
	states                map[uint64]bool
	opsSigs               map[string]bool
	nontrivial            map[string]bool
	schedSigs             map[string]bool
	samples               []any
	notes                 map[string]int
	harness               []string
	wallRuns              time.Duration
	goroutines            int
	locks                 int
	extraSum              map[string]float64
}

func newTally() *tally {
	return &tally{faults: map[string]int{}, probes: map[string]int{}, variants: map[string]int{}, policies: map[string]int{}, states: map[uint64]bool{},
		opsSigs: map[string]bool{}, nontrivial: map[string]bool{}, schedSigs: map[string]bool{}, notes: map[string]int{}, extraSum: map[string]float64{}}
}

func (t *tally) add(o *runOut, prop string) {
	t.runs++
	t.wallRuns += o.wall
	if v, ok := o.cfg["_variant"].(string); ok {
		t.variants[v]++
	}
	if p, ok := o.cfg["policy"].(string); ok {
		t.policies[p]++
	}
	r := o.res
	if r == nil {
		t.crashed++
		return
	}
	t.okRuns++
	t.steps += r.Steps
	t.quiescents += r.Quiescents
	t.decisions += r.Decisions
	t.parks += r.Parks
	t.fast += r.FastPasses
	t.simMs += r.SimMs
	t.bound += r.Bound
	t.siEvents += r.SIEvents
	for k, v := range r.Faults {
		t.faults[k] += v
	}
	for k, v := range r.Probes {
		t.probes[k] += v
	}
	for _, s := range r.States {
		if len(t.states) < 1<<20 {
			t.states[s] = true
		}
	}
	for _, n := range r.Notes {
		if i := strings.Index(n, "("); i > 0 {
			n = n[:i]
		}
		t.notes[n]++
	}
	for k, v := range r.Extra {
		if f, ok := v.(float64); ok {
			t.extraSum[k] += f
		}
	}
	if r.Goroutines > t.goroutines {
		t.goroutines = r.Goroutines
	}
	if r.Locks > t.locks {
		t.locks = r.Locks
	}
	t.opsSigs[r.OpsSig] = true
	t.schedSigs[r.OpsSig+r.SchedSig] = true
	if nontrivial(prop, r) {
		t.nontrivial[r.OpsSig+r.SchedSig] = true
	}
	if len(t.samples) < 3 && nontrivial(prop, r) {
		ops := r.Ops
		if len(ops) > 40 {
			ops = ops[:40]
		}
		t.samples = append(t.samples, map[string]any{"seed": o.cfg["seed"], "variant": o.cfg["_variant"], "policy": o.cfg["policy"],
			"first_operations": ops, "first_si_events": r.Sample, "steps": r.Steps, "allocations_bound": r.Bound, "faults": r.Faults, "probes": r.Probes})
	}
}

// relevantProbes: a run counts as non-trivial for a property if it bound at least one allocation and hit
// at least one probe relevant to that property (stated in the evidence "rule").
var relevantProbes = map[string][]string{
	"C01": {"binding_checked", "node_full", "replacement_on_other_node"},
	"C02": {"queue_max_checked", "queue_at_max"},
	"C03": {"drained_clean", "inflight_cross_node_swap"},
	"C04": {"protocol_events"},
	"C05": {"user_limit_checked", "limit_dao_checked"},
	"C06": {"placeholder_replaced", "placeholder_timeout"},
	"C07": {"preemption_victim_checked"},
	"C08": {"preemption_victim_checked", "quota_preemption_fired"},
	"C09": {"reservation_exists"},
	"C10": {"app_completed", "app_completing"},
	"C11": {"first_allocation_gate_limited"},
	"C12": {"restart_compared"},
	"C13": {"malformed_injected"},
	"C14": {"interleaved"},
	"C15": {"config_loaded"},
	"C16": {"reload_accepted", "reload_rejected"},
	"C17": {"placement_checked"},
	"C19": {"sort_checked"},
	"C20": {"ring_checked"},
}

func nontrivial(prop string, r *Result) bool {
	if prop != "C20" && prop != "C15" && prop != "C17" && r.Bound == 0 {
		return false
	}
	for _, p := range relevantProbes[prop] {
		if r.Probes[p] > 0 {
			return true
		}
	}
	return false
}

func doCheck(prop, tier string, seed uint64, runsOverride, budgetOverride int) int {
	pl, ok := plans[prop]
	if !ok {
		die2("no check for property %s (see MANIFEST not_applicable)", prop)
	}
	if alt := os.Getenv("VERIF_PLAN"); alt != "" {
		// triage aid: judge this property over the workload plan of another one (never used by registered commands)
		if ap, ok := plans[alt]; ok {
			pl.Variants = ap.Variants
		}
	}
	needRace := false
	for _, v := range pl.Variants {
		if v.Race {
			needRace = true
		}
	}
	build(false)
	if needRace {
		build(true)
	}
	buildSecs := time.Since(startWall).Seconds()
	nRuns := pl.QuickRuns
	budget := pl.QuickSecs
	if tier == "thorough" {
		nRuns = pl.ThoroughRuns
		budget = pl.ThoroughSecs
	}
	if runsOverride > 0 {
		nRuns = runsOverride
	}
	if budgetOverride > 0 {
		budget = budgetOverride
	}
	deadline := time.Now().Add(time.Duration(budget) * time.Second)
	// the plan: variants by weight, seeds derived from the base seed
	totalW := 0
	for _, v := range pl.Variants {
		totalW += v.Weight
	}
	var cfgs []map[string]any
	sm := seed*0x9e3779b97f4a7c15 + 0x1234567
	for i := 0; i < nRuns; i++ {
		x := int(splitmix(&sm) % uint64(totalW))
		var v variant
		for _, cand := range pl.Variants {
			if x < cand.Weight {
				v = cand
				break
			}
			x -= cand.Weight
		}
		if tier == "thorough" {
			v.Steps = v.Steps * 2
		}
		rs := splitmix(&sm) >> 12
		cfgs = append(cfgs, mkCfg(rs, prop, v))
	}
	t := newTally()
	mine := map[string]*found{}
	others := map[string]int{}
	var harnessTrouble []string
	var phase1 []*runOut
	crashPoints := 0
	each := func(o *runOut) {
		if pl.Restart && o.cfg["restore"] == nil {
			phase1 = append(phase1, o)
		}
		t.add(o, prop)
		if o.harness != "" {
			harnessTrouble = append(harnessTrouble, fmt.Sprintf("seed %v: %s", o.cfg["seed"], o.harness))
			return
		}
		var vs []Violation
		if o.res != nil {
			vs = append(vs, o.res.Violations...)
		}
		if o.panicSig != "" {
			vs = append(vs, Violation{Prop: "C13", Clause: "panic", Sig: o.panicSig, Msg: o.panicMsg})
		}
		for _, r := range o.races {
			vs = append(vs, Violation{Prop: "C14", Clause: "race", Sig: r.Sig, Msg: r.Text})
		}
		seen := map[string]bool{}
		for _, v := range vs {
			if seen[v.Sig] {
				continue
			}
			seen[v.Sig] = true
			if v.Prop != prop {
				others[v.Sig]++
				continue
			}
			f := mine[v.Sig]
			if f == nil {
				f = &found{sig: v.Sig, prop: v.Prop, msg: v.Msg, out: o}
				mine[v.Sig] = f
			} else if o.res != nil && f.out.res != nil && len(o.res.Ops) < len(f.out.res.Ops) {
				f.out = o // keep the shortest failing run
				f.msg = v.Msg
			}
			f.count++
		}
	}
	fanOut(cfgs, 240*time.Second, deadline, each)
	_ = crashPoints
	// restart recovery: every recorded crash point of the first phase becomes a run of its own that starts a fresh
	// core (fresh process: no singleton survives), replays the frozen shim knowledge and carries on
	if pl.Restart {
		var cfgs2 []map[string]any
		sm2 := seed ^ 0x5eed
		for _, o := range phase1 {
			if o.res == nil {
				continue
			}
			for _, fz := range o.res.Frozen {
				c := map[string]any{"seed": splitmix(&sm2) >> 12, "profile": o.cfg["profile"], "prop": prop, "steps": 25, "policy": "rtc",
					"faults": map[string]bool{"confirm_late": true}, "fault_rate": 0.03, "restore": fz, "_variant": fmt.Sprint(o.cfg["_variant"]) + "+restart"}
				cfgs2 = append(cfgs2, c)
			}
		}
		crashPoints = len(cfgs2)
		fanOut(cfgs2, 240*time.Second, deadline, each)
	}
	if len(harnessTrouble) > 0 {
		sort.Strings(harnessTrouble)
		max := len(harnessTrouble)
		if max > 5 {
			max = 5
		}
		// harness trouble is never disguised as a verdict
		die2("harness trouble in %d of %d runs, e.g.\n  %s", len(harnessTrouble), t.runs, strings.Join(harnessTrouble[:max], "\n  "))
	}
	if t.okRuns == 0 {
		die2("no run produced a result")
	}
	// classify: known findings vs new violations
	var sigs []string
	for s := range mine {
		sigs = append(sigs, s)
	}
	sort.Strings(sigs)
	exit := 0
	known := map[string]int{}
	var newV []string
	replays := 0
	for _, s := range sigs {
		f := mine[s]
		if kf := openFinding(s); kf != nil {
			known[kfKey(kf)] += f.count
			continue
		}
		exit = 1
		path := ""
		if replays < 3 {
			path = reportViolation(prop, f)
			replays++
		}
		newV = append(newV, s)
		fmt.Printf("VIOLATION property=%s replay=%s\n", prop, path)
		fmt.Printf("  signature: %s\n  seen in %d runs, e.g. seed %v: %s\n", s, f.count, f.out.cfg["seed"], oneLine(f.msg, 600))
	}
	var kfs []string
	for s := range known {
		kfs = append(kfs, s)
	}
	sort.Strings(kfs)
	for _, s := range kfs {
		for i := range findings {
			if kfKey(&findings[i]) == s {
				fmt.Printf("KNOWN-FINDING: property=%s %s [%s] (met in %d runs)\n", prop, findings[i].What, s, known[s])
				break
			}
		}
	}
	writeEvidence(prop, tier, seed, pl, t, len(newV), known, others, buildSecs)
	el := time.Since(startWall).Seconds()
	fmt.Printf("%s %s: %d runs (%d with result), %d steps, %d conductor decisions, %.0f simulated s, %d distinct states, %.0fs wall (build %.0fs); violations=%d known=%d other-properties=%d\n",
		prop, tier, t.runs, t.okRuns, t.steps, t.decisions, float64(t.simMs)/1000, len(t.states), el, buildSecs, len(newV), len(known), len(others))
	cleanup()
	return exit
}

// outDir: /verif, unless an experiment on a scratch tree redirects evidence and replays elsewhere.
func outDir() string {
	if d := os.Getenv("VERIF_OUTDIR"); d != "" {
		return d
	}
	return verifDir
}

func kfKey(f *Finding) string {
	if f.Sig != "" {
		return f.Sig
	}
	return f.Property + ":*" + f.Suffix
}

func oneLine(s string, n int) string {
	s = strings.ReplaceAll(s, "\n", " | ")
	if len(s) > n {
		s = s[:n] + "..."
	}
	return s
}

// ---- evidence --------------------------------------------------------------------------------------

func writeEvidence(prop, tier string, seed uint64, pl plan, t *tally, violations int, known map[string]int, others map[string]int, buildSecs float64) {
	wall := time.Since(startWall).Seconds()
	perHour := 0.0
	if wall > 0 {
		perHour = float64(t.runs) / wall * 3600
	}
	var zeroProbes []string
	for _, p := range relevantProbes[prop] {
		if t.probes[p] == 0 {
			zeroProbes = append(zeroProbes, p)
		}
	}
	level := pl.Level
	if level == "" {
		level = "exploration"
	}
	samples := t.samples
	if len(samples) == 0 {
		samples = []any{map[string]any{"note": "no run met the non-trivial rule in this batch"}}
	}
	ev := map[string]any{
		"property_id": prop,
		"tier":        tier,
		"seed":        seed,
		"level":       level,
		"wall_s":      wall,
		"violations":  violations,
		"coverage": map[string]any{
			"evaluations":         t.runs,
			"distinct_nontrivial": len(t.nontrivial),
			"rule": "one evaluation = one simulated run (one OS process, one synctest bubble) of a seeded world + seeded history + seeded schedule + seeded faults; " +
				"distinct = distinct (operation sequence hash, conductor decision hash) pairs; non-trivial = the run bound at least one allocation (where the property involves allocations) " +
				"and hit at least one of the probes " + strings.Join(relevantProbes[prop], ", "),
			"samples":                      samples,
			"runs_with_result":             t.okRuns,
			"runs_per_hour":                perHour,
			"seeds_per_hour":               perHour,
			"simulated_seconds":            float64(t.simMs) / 1000,
			"driver_steps":                 t.steps,
			"quiescent_points_checked":     t.quiescents,
			"conductor_decisions":          t.decisions,
			"lock_acquisitions_passed":     t.fast,
			"goroutine_parks":              t.parks,
			"max_managed_goroutines":       t.goroutines,
			"max_lock_instances":           t.locks,
			"allocations_bound":            t.bound,
			"si_events_checked":            t.siEvents,
			"fault_kinds_fired":            t.faults,
			"probes":                       t.probes,
			"probes_at_zero":               zeroProbes,
			"distinct_operation_sequences": len(t.opsSigs),
			"distinct_interleavings":       len(t.schedSigs),
			"distinct_abstract_states":     len(t.states),
			"variant_mix":                  t.variants,
			"policy_mix":                   t.policies,
			"known_findings_met":           known,
			"other_properties_seen":        others,
			"generator_notes":              t.notes,
			"build_seconds":                buildSecs,
			"extra":                        t.extraSum,
			"components_real": []string{"pkg/entrypoint", "pkg/scheduler (Scheduler, ClusterContext, PartitionContext, partition manager, health checker, node monitor)",
				"pkg/scheduler/objects", "pkg/scheduler/ugm", "pkg/scheduler/placement", "pkg/scheduler/policies", "pkg/events", "pkg/rmproxy", "pkg/common/configs", "pkg/common/security (no resolver)", "pkg/common/resources", "pkg/metrics", "pkg/locking (hooked)"},
			"components_stubbed": []string{"the shim and its predicates (simulated actor)", "looplab/fsm with stateMu/eventMu retyped to hooked mutexes", "gRPC / k8shim (not in the path)", "REST HTTP transport (handlers called in memory where used)", "LDAP/OS user group resolvers (not exercised)", "zap logging (no-op core)"},
		},
		"assumptions": []string{
			"sampling: a clean batch is evidence, not proof",
			"yield points are lock acquisitions, goroutine starts, shim callbacks; range-over-map order, go statements and time.AfterFunc are owned by the simulator through a source overlay regenerated from /repo's working tree",
			"the reference models are written from the property statements; see DESIGN.md section 4 for each clause and section 10 for the trusted base",
		},
	}
	b, _ := json.MarshalIndent(ev, "", " ")
	dir := filepath.Join(outDir(), "evidence")
	os.MkdirAll(dir, 0o755)
	if err := os.WriteFile(filepath.Join(dir, prop+".json"), b, 0o644); err != nil {
		die2("cannot write evidence: %v", err)
	}
}

// ---- violation: minimise, confirm, write the replay file -------------------------------------------------

type replayFile struct {
	Property  string         `json:"property"`
	Signature string         `json:"signature"`
	Message   string         `json:"message"`
	Cfg       map[string]any `json:"cfg"`
	SchedSig  string         `json:"sched_sig"`
	Minimised bool           `json:"minimised"`
	OrigOps   int            `json:"original_operations"`
	Ops       int            `json:"operations"`
	Note      string         `json:"note,omitempty"`
	Stderr    string         `json:"stderr_tail,omitempty"`
}

func hasSig(o *runOut, sig string) bool {
	if o.panicSig == sig {
		return true
	}
	for _, r := range o.races {
		if r.Sig == sig {
			return true
		}
	}
	if o.res != nil {
		for _, v := range o.res.Violations {
			if v.Sig == sig {
				return true
			}
		}
	}
	return false
}

func cloneCfg(c map[string]any) map[string]any {
	b, _ := json.Marshal(c)
	var o map[string]any
	json.Unmarshal(b, &o)
	return o
}

func reportViolation(prop string, f *found) string {
	dir := filepath.Join(outDir(), "replays", prop)
	os.MkdirAll(dir, 0o755)
	base := cloneCfg(f.out.cfg)
	rf := replayFile{Property: prop, Signature: f.sig, Message: f.msg, Cfg: base}
	if f.out.res != nil {
		rf.SchedSig = f.out.res.SchedSig
		rf.OrigOps = len(f.out.res.Ops)
		rf.Ops = rf.OrigOps
	} else {
		rf.Stderr = tail(f.out.stderr, 3000)
	}
	// minimise over the recorded operations when the run got far enough to report them
	if f.out.res != nil && len(f.out.res.Ops) > 0 {
		ops := f.out.res.Ops
		// cut after the step at which the violation was first seen
		min := minimise(base, ops, f.sig)
		if min != nil {
			rf.Cfg = min.cfg
			rf.SchedSig = min.sched
			rf.Minimised = true
			rf.Ops = min.n
		}
	}
	// confirm: two fresh processes must fail the same way
	okCount := 0
	for i := 0; i < 2; i++ {
		o := runOne(cloneCfg(rf.Cfg), 90*time.Second)
		if hasSig(o, f.sig) && (o.res == nil || rf.SchedSig == "" || o.res.SchedSig == rf.SchedSig) {
			okCount++
		}
	}
	if okCount < 2 {
		rf.Note = fmt.Sprintf("replay confirmation: %d of 2 fresh processes reproduced the signature with the same schedule", okCount)
		fmt.Fprintf(os.Stderr, "vcheck: %s\n", rf.Note)
	}
	name := fmt.Sprintf("%v-%s.json", rf.Cfg["seed"], sanitize(f.sig))
	path := filepath.Join(dir, name)
	b, _ := json.MarshalIndent(rf, "", " ")
	os.WriteFile(path, b, 0o644)
	return path
}

func sanitize(s string) string {
	var b strings.Builder
	for _, r := range s {
		switch {
		case r >= 'a' && r <= 'z', r >= 'A' && r <= 'Z', r >= '0' && r <= '9', r == '-', r == '_':
			b.WriteRune(r)
		default:
			b.WriteRune('_')
		}
	}
	out := b.String()
	if len(out) > 80 {
		out = out[:80]
	}
	return out
}

type minResult struct {
	cfg   map[string]any
	sched string
	n     int
}

// minimise: delta debugging over the operation list; every candidate runs in a fresh process and counts
// only if it fails with the same signature.
func minimise(base map[string]any, ops []json.RawMessage, sig string) *minResult {
	deadline := time.Now().Add(75 * time.Second)
	try := func(cand []json.RawMessage, noperm bool) *runOut {
		c := cloneCfg(base)
		c["ops"] = cand
		if noperm {
			c["noperm"] = true
		}
		return runOne(c, 60*time.Second)
	}
	// the recorded list itself must reproduce (it includes the confirmations and clock advances)
	first := try(ops, false)
	if !hasSig(first, sig) {
		return nil
	}
	cur := ops
	best := first
	n := 2
	for len(cur) >= 2 && time.Now().Before(deadline) {
		chunk := (len(cur) + n - 1) / n
		type cand struct {
			ops []json.RawMessage
			out *runOut
		}
		var cands []cand
		for start := 0; start < len(cur); start += chunk {
			end := start + chunk
			if end > len(cur) {
				end = len(cur)
			}
			c := append(append([]json.RawMessage{}, cur[:start]...), cur[end:]...)
			cands = append(cands, cand{ops: c})
		}
		cfgs := make([]map[string]any, len(cands))
		for i := range cands {
			c := cloneCfg(base)
			c["ops"] = cands[i].ops
			c["_idx"] = i
			cfgs[i] = c
		}
		fanOut(cfgs, 60*time.Second, deadline, func(o *runOut) {
			if idx, ok := o.cfg["_idx"].(int); ok {
				cands[idx].out = o
			}
		})
		reduced := false
		for _, c := range cands {
			if c.out != nil && hasSig(c.out, sig) {
				cur = c.ops
				best = c.out
				reduced = true
				break
			}
		}
		if reduced {
			if n > 2 {
				n--
			}
			continue
		}
		if chunk == 1 {
			break
		}
		n *= 2
		if n > len(cur) {
			n = len(cur)
		}
	}
	// prefer the canonical map order if the violation does not need a particular one
	final := cloneCfg(base)
	final["ops"] = cur
	if o := try(cur, true); hasSig(o, sig) {
		final["noperm"] = true
		best = o
	}
	delete(final, "_idx")
	sched := ""
	if best.res != nil {
		sched = best.res.SchedSig
	}
	return &minResult{cfg: final, sched: sched, n: len(cur)}
}

// ---- replay ------------------------------------------------------------------------------------------

func doReplay(path string) int {
	b, err := os.ReadFile(path)
	if err != nil {
		die2("replay: %v", err)
	}
	var rf replayFile
	if err := json.Unmarshal(b, &rf); err != nil {
		die2("replay: %v", err)
	}
	race, _ := rf.Cfg["race"].(bool)
	build(race)
	if race {
		build(false)
	}
	o := runOne(cloneCfg(rf.Cfg), 120*time.Second)
	defer cleanup()
	if o.harness != "" {
		die2("replay: harness trouble: %s", o.harness)
	}
	if hasSig(o, rf.Signature) {
		if o.res != nil && rf.SchedSig != "" && o.res.SchedSig != rf.SchedSig {
			die2("replay reproduced %s but with another schedule (%s, recorded %s): the tree differs from the one recorded, or determinism is broken", rf.Signature, o.res.SchedSig, rf.SchedSig)
		}
		msg := rf.Message
		if o.res != nil {
			for _, v := range o.res.Violations {
				if v.Sig == rf.Signature {
					msg = v.Msg
					break
				}
			}
		}
		fmt.Printf("VIOLATION property=%s replay=%s\n  reproduced: %s: %s\n", rf.Property, path, rf.Signature, oneLine(msg, 800))
		return 1
	}
	fmt.Printf("replay of %s: signature %s not reproduced on this tree\n", path, rf.Signature)
	return 0
}

// ---- determinism self-test --------------------------------------------------------------------------------

func doDeterminism(seed uint64, n int) int {
	build(false)
	defer cleanup()
	if n == 0 {
		n = 60
	}
	type key struct {
		seed    uint64
		variant string
	}
	var cfgs []map[string]any
	sm := seed
	vs := []variant{
		{Name: "rtc-base", Profile: "base", Policy: "rtc", Steps: 60, Faults: []string{"confirm_late", "confirm_dup", "node_loss"}, FaultRate: 0.03},
		{Name: "rtc-gang", Profile: "gang", Policy: "rtc", Steps: 60, Faults: []string{"confirm_late", "confirm_lost", "clock_jump"}, FaultRate: 0.03},
		{Name: "rnd-base", Profile: "base", Policy: "rnd", PreemptP: 0.05, Steps: 50, Faults: []string{"xchan_reorder", "node_loss"}, FaultRate: 0.03},
		{Name: "pct-preempt", Profile: "preempt", Policy: "pct", PctDepth: 3, Steps: 50, Faults: []string{"xchan_reorder"}, FaultRate: 0.03},
	}
	for i := 0; i < n; i++ {
		rs := splitmix(&sm) >> 12
		v := vs[i%len(vs)]
		for _, gmp := range []string{"1", "4", "16"} {
			c := mkCfg(rs, "", v)
			c["_gomaxprocs"] = gmp
			cfgs = append(cfgs, c)
		}
	}
	got := map[key]map[string]string{}
	bad := 0
	fanOut(cfgs, 120*time.Second, time.Time{}, func(o *runOut) {
		k := key{uint64(o.cfg["seed"].(uint64)), o.cfg["_variant"].(string)}
		sig := "crash:" + o.harness + o.panicSig
		if o.res != nil {
			vs := []string{}
			for _, v := range o.res.Violations {
				vs = append(vs, v.Sig+fmt.Sprint(v.Step))
			}
			sig = fmt.Sprintf("%s/%s/%d/%d/%s", o.res.OpsSig, o.res.SchedSig, o.res.Decisions, o.res.SIEvents, strings.Join(vs, ","))
		}
		if got[k] == nil {
			got[k] = map[string]string{}
		}
		got[k][o.cfg["_gomaxprocs"].(string)] = sig
	})
	for k, m := range got {
		ref := ""
		for _, s := range m {
			if ref == "" {
				ref = s
			}
			if s != ref {
				bad++
				fmt.Printf("NONDETERMINISM seed=%d variant=%s: %v\n", k.seed, k.variant, m)
				break
			}
		}
	}
	fmt.Printf("determinism self-test: %d seeds x 3 GOMAXPROCS settings, %d diverged\n", len(got), bad)
	if bad > 0 {
		return 2
	}
	return 0
}

// doRepro: development helper - run one configuration, minimise and write replay files for what it shows.
func doRepro(path, prop string) int {
	b, err := os.ReadFile(path)
	if err != nil {
		die2("repro: %v", err)
	}
	var cfg map[string]any
	if err := json.Unmarshal(b, &cfg); err != nil {
		die2("repro: %v", err)
	}
	build(false)
	defer cleanup()
	o := runOne(cfg, 120*time.Second)
	if o.harness != "" {
		die2("repro: %s", o.harness)
	}
	seen := map[string]bool{}
	if o.panicSig != "" {
		fmt.Println("panic:", o.panicSig, o.panicMsg)
	}
	if o.res == nil {
		return 1
	}
	for _, v := range o.res.Violations {
		if seen[v.Sig] || (prop != "" && v.Prop != prop) {
			continue
		}
		seen[v.Sig] = true
		f := &found{sig: v.Sig, prop: v.Prop, msg: v.Msg, out: o, count: 1}
		fmt.Printf("%s step %d: %s\n  replay: %s\n", v.Sig, v.Step, oneLine(v.Msg, 300), reportViolation(v.Prop, f))
		if len(seen) >= 3 {
			break
		}
	}
	return 0
}
