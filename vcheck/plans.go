package main

type plan struct {
	Variants     []variant
	QuickRuns    int
	QuickSecs    int
	ThoroughRuns int
	ThoroughSecs int
	Level        string
	Restart      bool
}

var confirmFaults = []string{"confirm_late", "confirm_dup", "confirm_lost"}

func with(base []string, more ...string) []string {
	return append(append([]string{}, base...), more...)
}

// the common workload mix for the capacity / accounting / protocol properties
func stdVariants(profile string) []variant {
	return []variant{
		{Name: profile + "-nofault", Profile: profile, Policy: "rtc", Steps: 90, Weight: 3},
		{Name: profile + "-confirm", Profile: profile, Policy: "rtc", Steps: 90, Faults: confirmFaults, FaultRate: 0.03, Weight: 3},
		{Name: profile + "-churn", Profile: profile, Policy: "rtc", Steps: 90, Faults: with(confirmFaults, "node_loss", "app_remove_live", "req_dup", "clock_jump", "predicate_flap"), FaultRate: 0.03, Weight: 3},
		{Name: profile + "-deadline", Profile: profile, Policy: "rtc", Steps: 90, Faults: with(confirmFaults, "deadline_race", "predicate_flap", "predicate_side_effect"), FaultRate: 0.05, Weight: 3},
		{Name: profile + "-deadline-rnd", Profile: profile, Policy: "rnd", PreemptP: 0.1, Steps: 70, Faults: with(confirmFaults, "deadline_race"), FaultRate: 0.05, Weight: 2},
		{Name: profile + "-interleaved", Profile: profile, Policy: "rnd", PreemptP: 0.05, Steps: 70, Faults: with(confirmFaults, "xchan_reorder", "node_loss", "app_remove_live"), FaultRate: 0.03, Weight: 2},
	}
}

// gangSwap: predicate refusals directed at the placeholder's node (replacement lands on another node), late confirmations
var gangSwap = variant{Name: "gang-swap", Profile: "gang", Policy: "rtc", Steps: 90, Faults: []string{"predicate_flap", "confirm_late", "node_loss"}, FaultRate: 0.08, Weight: 4}

var reloadFaults = []string{"reload_valid", "reload_invalid"}

func reloadVariants(profile string) []variant {
	return []variant{
		{Name: profile + "-reload", Profile: profile, Policy: "rtc", Steps: 90, Faults: reloadFaults, FaultRate: 0.03, Weight: 4},
		{Name: profile + "-reload-churn", Profile: profile, Policy: "rtc", Steps: 90, Faults: with(reloadFaults, "confirm_late", "node_loss", "app_remove_live"), FaultRate: 0.03, Weight: 2},
		{Name: profile + "-reload-interleaved", Profile: profile, Policy: "rnd", PreemptP: 0.05, Steps: 70, Faults: with(reloadFaults, "xchan_reorder"), FaultRate: 0.03, Weight: 2},
	}
}

func preemptVariants() []variant {
	return []variant{
		{Name: "preempt-nofault", Profile: "preempt", Policy: "rtc", Steps: 110, Weight: 4},
		{Name: "preempt-confirm", Profile: "preempt", Policy: "rtc", Steps: 110, Faults: confirmFaults, FaultRate: 0.03, Weight: 3},
		{Name: "preempt-late", Profile: "preempt", Policy: "rtc", Steps: 110, Faults: []string{"confirm_late", "confirm_dup"}, FaultRate: 0.1, Weight: 3},
		{Name: "preempt-interleaved", Profile: "preempt", Policy: "rnd", PreemptP: 0.1, Steps: 90, Faults: with(confirmFaults, "xchan_reorder"), FaultRate: 0.03, Weight: 2},
		{Name: "preempt-reload", Profile: "preempt", Policy: "rtc", Steps: 110, Faults: with(confirmFaults, "reload_valid"), FaultRate: 0.03, Weight: 3},
		{Name: "preempt-churn", Profile: "preempt", Policy: "rtc", Steps: 110, Faults: with(confirmFaults, "node_loss", "app_remove_live", "clock_jump", "predicate_flap"), FaultRate: 0.03, Weight: 2},
	}
}

var plans = map[string]plan{
	"C01": {Variants: append(stdVariants("base"), stdVariants("gang")[1], stdVariants("gang")[3], gangSwap), QuickRuns: 400, QuickSecs: 70, ThoroughRuns: 40000, ThoroughSecs: 1500},
	"C02": {Variants: append(stdVariants("quota"), stdVariants("base")[0], stdVariants("gang")[1], stdVariants("gang")[2], gangSwap, gangSwap, reloadVariants("quota")[0], reloadVariants("quota")[1]), QuickRuns: 400, QuickSecs: 70, ThoroughRuns: 40000, ThoroughSecs: 1500},
	"C03": {Variants: append(append(stdVariants("base"), stdVariants("gang")...), gangSwap), QuickRuns: 400, QuickSecs: 70, ThoroughRuns: 40000, ThoroughSecs: 1500},
	"C04": {Variants: append(append(stdVariants("base"), stdVariants("gang")...), gangSwap,
		variant{Name: "base-anytype", Profile: "base", Policy: "rtc", Steps: 90, Faults: with(confirmFaults, "release_any_type"), FaultRate: 0.03, Weight: 2},
		variant{Name: "gang-anytype", Profile: "gang", Policy: "rtc", Steps: 90, Faults: with(confirmFaults, "release_any_type", "confirm_wrong_type"), FaultRate: 0.03, Weight: 2}), QuickRuns: 400, QuickSecs: 70, ThoroughRuns: 40000, ThoroughSecs: 1500},
	"C05": {Variants: append(append(append(stdVariants("limits"), stdVariants("quota")[0]), reloadVariants("limits")...), stdVariants("gang")[1], stdVariants("gang")[2]), QuickRuns: 400, QuickSecs: 70, ThoroughRuns: 40000, ThoroughSecs: 1500},
	"C15": {Variants: append(reloadVariants("quota"), reloadVariants("limits")...), QuickRuns: 400, QuickSecs: 70, ThoroughRuns: 40000, ThoroughSecs: 1500},
	"C16": {Variants: append(append(reloadVariants("quota"), reloadVariants("limits")...), reloadVariants("base")...), QuickRuns: 400, QuickSecs: 70, ThoroughRuns: 40000, ThoroughSecs: 1500},
	"C06": {Variants: append(stdVariants("gang"), gangSwap, variant{Name: "gang-clock", Profile: "gang", Policy: "rtc", Steps: 90, Faults: with(confirmFaults, "clock_jump", "node_loss"), FaultRate: 0.05, Weight: 4}), QuickRuns: 400, QuickSecs: 70, ThoroughRuns: 40000, ThoroughSecs: 1500},
	"C12": {Variants: []variant{
		{Name: "restart-base", Profile: "base", Policy: "rtc", Steps: 60, Faults: confirmFaults, FaultRate: 0.03, Weight: 3, Freeze: true},
		{Name: "restart-gang", Profile: "gang", Policy: "rtc", Steps: 60, Faults: with(confirmFaults, "node_loss"), FaultRate: 0.03, Weight: 3, Freeze: true},
		{Name: "restart-limits", Profile: "limits", Policy: "rtc", Steps: 60, Faults: confirmFaults, FaultRate: 0.03, Weight: 2, Freeze: true},
		{Name: "restart-quota", Profile: "quota", Policy: "rtc", Steps: 60, Faults: confirmFaults, FaultRate: 0.03, Weight: 2, Freeze: true},
	}, QuickRuns: 40, QuickSecs: 80, ThoroughRuns: 3000, ThoroughSecs: 1800, Level: "fault_enumeration", Restart: true},
	"C20": {Variants: []variant{
		{Name: "events-rtc", Engine: "events", Policy: "rtc", Steps: 60, Weight: 2},
		{Name: "events-rnd", Engine: "events", Policy: "rnd", PreemptP: 0.2, Steps: 60, Weight: 3},
		{Name: "events-pct", Engine: "events", Policy: "pct", PctDepth: 3, Steps: 60, Weight: 2},
	}, QuickRuns: 1500, QuickSecs: 60, ThoroughRuns: 200000, ThoroughSecs: 900},
	"C14": {Variants: []variant{
		{Name: "race-base-rnd", Profile: "base", Policy: "rnd", PreemptP: 0.05, Steps: 45, Race: true, Auto: true, Faults: with(confirmFaults, "xchan_reorder", "rest_read", "reload_valid", "node_loss", "app_remove_live"), FaultRate: 0.03, Weight: 3},
		{Name: "race-gang-pct", Profile: "gang", Policy: "pct", PctDepth: 3, Steps: 45, Race: true, Auto: true, Faults: with(confirmFaults, "xchan_reorder", "rest_read", "node_loss"), FaultRate: 0.03, Weight: 2},
		{Name: "race-preempt-rnd", Profile: "preempt", Policy: "rnd", PreemptP: 0.1, Steps: 55, Race: true, Auto: true, Faults: with(confirmFaults, "xchan_reorder", "rest_read", "reload_valid"), FaultRate: 0.03, Weight: 3},
		{Name: "race-limits-rnd", Profile: "limits", Policy: "rnd", PreemptP: 0.05, Steps: 45, Race: true, Auto: true, Faults: with(confirmFaults, "xchan_reorder", "rest_read", "reload_valid", "reload_invalid", "malformed"), FaultRate: 0.03, Weight: 2},
		{Name: "norace-base-pct", Profile: "base", Policy: "pct", PctDepth: 2, Steps: 60, Auto: true, Faults: with(confirmFaults, "xchan_reorder", "rest_read", "reload_valid", "node_loss"), FaultRate: 0.03, Weight: 2},
	}, QuickRuns: 150, QuickSecs: 100, ThoroughRuns: 20000, ThoroughSecs: 1800},
	"C13": {Variants: []variant{
		{Name: "malformed-base", Profile: "base", Policy: "rtc", Steps: 90, Faults: []string{"malformed"}, FaultRate: 0.03, Weight: 3},
		{Name: "malformed-gang", Profile: "gang", Policy: "rtc", Steps: 90, Faults: with(confirmFaults, "malformed", "node_loss", "app_remove_live"), FaultRate: 0.03, Weight: 3},
		{Name: "malformed-limits", Profile: "limits", Policy: "rtc", Steps: 90, Faults: []string{"malformed", "req_dup"}, FaultRate: 0.03, Weight: 2},
		{Name: "malformed-interleaved", Profile: "base", Policy: "rnd", PreemptP: 0.05, Steps: 70, Faults: []string{"malformed", "xchan_reorder", "node_loss"}, FaultRate: 0.03, Weight: 2},
	}, QuickRuns: 400, QuickSecs: 70, ThoroughRuns: 40000, ThoroughSecs: 1500, Level: "fault_enumeration"},
	"C07": {Variants: preemptVariants(), QuickRuns: 400, QuickSecs: 70, ThoroughRuns: 40000, ThoroughSecs: 1500},
	"C08": {Variants: preemptVariants(), QuickRuns: 400, QuickSecs: 70, ThoroughRuns: 40000, ThoroughSecs: 1500},
	"C17": {Variants: append(append(stdVariants("place")[:2:2], reloadVariants("place")...), stdVariants("quota")[0], stdVariants("maxapps")[0]), QuickRuns: 400, QuickSecs: 70, ThoroughRuns: 40000, ThoroughSecs: 1500},
	"C19": {Variants: append(append(stdVariants("sort")[:3:3], stdVariants("preempt")[0]), stdVariants("quota")[0], reloadVariants("sort")[0]), QuickRuns: 400, QuickSecs: 70, ThoroughRuns: 40000, ThoroughSecs: 1500},
	"C09": {Variants: append(stdVariants("base"), stdVariants("gang")[1], stdVariants("gang")[2], stdVariants("gang")[5], preemptVariants()[0], preemptVariants()[0], preemptVariants()[1], preemptVariants()[2], preemptVariants()[5]), QuickRuns: 400, QuickSecs: 70, ThoroughRuns: 40000, ThoroughSecs: 1500},
	"C10": {Variants: append(append(stdVariants("base"), stdVariants("gang")...), gangSwap), QuickRuns: 400, QuickSecs: 70, ThoroughRuns: 40000, ThoroughSecs: 1500},
	"C11": {Variants: append(stdVariants("maxapps"), reloadVariants("maxapps")[0], reloadVariants("maxapps")[1]), QuickRuns: 400, QuickSecs: 70, ThoroughRuns: 40000, ThoroughSecs: 1500},
}
