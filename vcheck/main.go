// Command vcheck is the orchestrator of the deterministic simulation checks.
//
//	vcheck <property> [--tier quick|thorough] [--seed N]
//	vcheck --replay <file>
//	vcheck --selftest determinism
//
// It rebuilds the simulation binary from /repo's current working tree (rewriter + overlay), fans
// seeded runs out over the cores (one simulated run per OS process), minimises and confirms any
// violation, writes /verif/evidence/<id>.json and prints VIOLATION / KNOWN-FINDING lines.
// Exit status: 0 property held on everything explored (known findings listed), 1 violation, 2 trouble.
package main

import (
	"bytes"
	"encoding/json"
	"flag"
	"fmt"
	"os"
	"os/exec"
	"path/filepath"
	"regexp"
	"sort"
	"strconv"
	"strings"
	"sync"
	"time"
)

const verifDir = "/verif"

type Violation struct {
	Prop   string `json:"prop"`
	Clause string `json:"clause"`
	Msg    string `json:"msg"`
	Step   int    `json:"step"`
	Sig    string `json:"sig"`
}

type Result struct {
	Cfg        map[string]any    `json:"cfg"`
	Violations []Violation       `json:"violations"`
	Deadlock   string            `json:"deadlock"`
	Stuck      string            `json:"stuck"`
	Steps      int               `json:"steps"`
	Quiescents int               `json:"quiescents"`
	Decisions  uint64            `json:"decisions"`
	FastPasses uint64            `json:"fast_passes"`
	Parks      uint64            `json:"parks"`
	Locks      int               `json:"locks"`
	SchedSig   string            `json:"sched_sig"`
	SimMs      int64             `json:"sim_ms"`
	Faults     map[string]int    `json:"faults"`
	Probes     map[string]int    `json:"probes"`
	States     []uint64          `json:"states"`
	NStates    int               `json:"nstates"`
	Bound      int               `json:"bound"`
	SIEvents   int               `json:"si_events"`
	Ops        []json.RawMessage `json:"ops"`
	Sample     []json.RawMessage `json:"sample"`
	Notes      []string          `json:"notes"`
	OpsSig     string            `json:"ops_sig"`
	Goroutines int               `json:"goroutines"`
	GenOps     int               `json:"gen_ops"`
	Extra      map[string]any    `json:"extra"`
	Frozen     []json.RawMessage `json:"frozen"`
}

// outcome of one process
type runOut struct {
	cfg      map[string]any
	res      *Result
	exit     int
	stderr   string
	wall     time.Duration
	timedOut bool
	panicSig string // non-empty: the process died with a Go panic in repository code
	panicMsg string
	races    []raceReport
	harness  string
}

type raceReport struct {
	Sig  string
	Text string
}

type Finding struct {
	Status   string `json:"status"` // open | fixed
	Property string `json:"property"`
	Sig      string `json:"sig"`              // signature prefix
	Suffix   string `json:"suffix,omitempty"` // alternatively: signature suffix (history marker), property "*" = any
	Commit   string `json:"commit,omitempty"`
	What     string `json:"what"`
}

type variant struct {
	Name      string
	Profile   string
	Policy    string
	PreemptP  float64
	PctDepth  int
	Faults    []string
	FaultRate float64
	Steps     int
	Weight    int
	Auto      bool
	Race      bool
	Extra     map[string]string
	Freeze    bool
	Engine    string
}

var (
	scratch   string
	simBin    string
	raceBin   string
	findings  []Finding
	workers   = 16
	startWall = time.Now()
)

func die2(format string, args ...any) {
	fmt.Fprintf(os.Stderr, "vcheck: "+format+"\n", args...)
	cleanup()
	os.Exit(2)
}

func cleanup() {
	if scratch != "" && os.Getenv("VERIF_KEEP") == "" {
		os.RemoveAll(scratch)
	}
}

func main() {
	tier := flag.String("tier", os.Getenv("VERIF_TIER"), "quick or thorough")
	seedFlag := flag.String("seed", os.Getenv("VERIF_SEED"), "base seed")
	replay := flag.String("replay", "", "replay file")
	selftest := flag.String("selftest", "", "determinism")
	repro := flag.String("repro", "", "run one configuration (JSON file) and minimise what it finds for the property")
	runs := flag.Int("runs", 0, "override the number of runs")
	budget := flag.Int("budget", 0, "override the wall-clock budget in seconds")
	flag.Usage = func() {
		fmt.Fprintln(os.Stderr, "usage: vcheck <property> [--tier quick|thorough] [--seed N] | --replay file | --selftest determinism")
	}
	// allow "vcheck C01 --tier quick": pull the first non-flag argument out
	args := os.Args[1:]
	prop := ""
	if len(args) > 0 && !strings.HasPrefix(args[0], "-") {
		prop = args[0]
		args = args[1:]
	}
	if err := flag.CommandLine.Parse(args); err != nil {
		os.Exit(2)
	}
	if prop == "" && flag.NArg() > 0 {
		prop = flag.Arg(0)
	}
	if *tier == "" {
		*tier = "quick"
	}
	seed := uint64(1)
	if *seedFlag != "" {
		v, err := strconv.ParseUint(*seedFlag, 10, 64)
		if err != nil {
			die2("bad seed %q", *seedFlag)
		}
		seed = v
	}
	loadFindings()
	if n := os.Getenv("VERIF_WORKERS"); n != "" {
		if v, err := strconv.Atoi(n); err == nil && v > 0 {
			workers = v
		}
	}
	switch {
	case *replay != "":
		os.Exit(doReplay(*replay))
	case *repro != "":
		os.Exit(doRepro(*repro, prop))
	case *selftest == "determinism":
		os.Exit(doDeterminism(seed, *runs))
	case prop != "":
		os.Exit(doCheck(prop, *tier, seed, *runs, *budget))
	default:
		flag.Usage()
		os.Exit(2)
	}
}

func loadFindings() {
	b, err := os.ReadFile(filepath.Join(verifDir, "known_findings.json"))
	if err != nil {
		return
	}
	var f struct {
		Findings []Finding `json:"findings"`
	}
	if err := json.Unmarshal(b, &f); err != nil {
		die2("known_findings.json: %v", err)
	}
	findings = f.Findings
}

func openFinding(sig string) *Finding {
	for i := range findings {
		if findings[i].Status != "open" {
			continue
		}
		if findings[i].Sig != "" && strings.HasPrefix(sig, findings[i].Sig) {
			return &findings[i]
		}
		if findings[i].Suffix != "" && strings.Contains(sig, findings[i].Suffix) && (findings[i].Property == "*" || strings.HasPrefix(sig, findings[i].Property+":")) {
			return &findings[i]
		}
	}
	return nil
}

// ---- build ---------------------------------------------------------------------------------------

func build(race bool) {
	if scratch == "" {
		base := os.Getenv("VERIF_SCRATCH")
		if base == "" {
			base = "/var/tmp"
		}
		d, err := os.MkdirTemp(base, "vcheck-")
		if err != nil {
			die2("scratch: %v", err)
		}
		scratch = d
	}
	arg := []string{filepath.Join(verifDir, "build.sh"), scratch}
	if race {
		arg = append(arg, "race")
	}
	cmd := exec.Command("/bin/bash", arg...)
	var out bytes.Buffer
	cmd.Stdout = &out
	cmd.Stderr = &out
	if err := cmd.Run(); err != nil {
		die2("build failed: %v\n%s", err, out.String())
	}
	if race {
		raceBin = filepath.Join(scratch, "sim.race.test")
	} else {
		simBin = filepath.Join(scratch, "sim.test")
	}
}

// ---- running one simulated execution --------------------------------------------------------------

var runSeq int
var runSeqMu sync.Mutex

func runOne(cfg map[string]any, timeout time.Duration) *runOut {
	runSeqMu.Lock()
	runSeq++
	id := runSeq
	runSeqMu.Unlock()
	out := &runOut{cfg: cfg}
	cj, _ := json.Marshal(cfg)
	resFile := filepath.Join(scratch, fmt.Sprintf("res-%d.json", id))
	bin := simBin
	if r, _ := cfg["race"].(bool); r {
		bin = raceBin
	}
	cmd := exec.Command(bin, "-test.run", "^TestSim$", "-test.timeout", "10m")
	gmp := "1"
	if v, ok := cfg["_gomaxprocs"].(string); ok {
		gmp = v
	}
	cmd.Env = append(os.Environ(), "VERIF_RUN_JSON="+string(cj), "VERIF_OUT="+resFile, "GOMAXPROCS="+gmp, "GORACE=halt_on_error=0 exitcode=66")
	var stderr bytes.Buffer
	cmd.Stdout = &stderr
	cmd.Stderr = &stderr
	start := time.Now()
	if err := cmd.Start(); err != nil {
		out.harness = "cannot start: " + err.Error()
		out.exit = 2
		return out
	}
	done := make(chan error, 1)
	go func() { done <- cmd.Wait() }()
	select {
	case err := <-done:
		if err != nil {
			if ee, ok := err.(*exec.ExitError); ok {
				out.exit = ee.ExitCode()
			} else {
				out.exit = 2
			}
		}
	case <-time.After(timeout):
		_ = cmd.Process.Kill()
		<-done
		out.timedOut = true
		out.exit = 2
	}
	out.wall = time.Since(start)
	out.stderr = stderr.String()
	if b, err := os.ReadFile(resFile); err == nil {
		var r Result
		if json.Unmarshal(b, &r) == nil {
			out.res = &r
		}
		os.Remove(resFile)
	}
	if strings.Contains(out.stderr, "WARNING: DATA RACE") {
		out.races = parseRaces(out.stderr)
	}
	if out.res == nil || (out.exit != 0 && out.exit != 66) {
		classifyCrash(out)
	}
	return out
}

var frameRe = regexp.MustCompile(`(?m)^(\S+)\(.*\)\n\t(\S+):(\d+)`)

// classifyCrash tells a panic in repository code (a violation: the core must never panic) from harness trouble.
func classifyCrash(out *runOut) {
	st := out.stderr
	if out.timedOut {
		out.harness = "run timed out (real time)"
		return
	}
	if strings.Contains(st, "HARNESS:") {
		i := strings.Index(st, "HARNESS:")
		end := strings.Index(st[i:], "\n")
		if end < 0 {
			end = len(st) - i
		}
		out.harness = st[i : i+end]
		return
	}
	i := strings.Index(st, "panic: ")
	j := strings.Index(st, "fatal error: ")
	if i < 0 && j < 0 {
		if out.res == nil {
			out.harness = fmt.Sprintf("no result, exit %d: %s", out.exit, tail(st, 400))
		}
		return
	}
	if i < 0 || (j >= 0 && j < i) {
		i = j
	}
	msgEnd := strings.Index(st[i:], "\n")
	msg := st[i : i+msgEnd]
	// frames of the panicking goroutine: from the first "goroutine N [running" after the message
	g := strings.Index(st[i:], "\ngoroutine ")
	if g < 0 {
		out.harness = "panic without stack: " + msg
		return
	}
	stack := st[i+g:]
	if k := strings.Index(stack[1:], "\n\n"); k > 0 {
		stack = stack[:k+1]
	}
	var repoFrames []string
	firstUser := ""
	for _, m := range frameRe.FindAllStringSubmatch(stack, -1) {
		fn := m[1]
		if strings.HasPrefix(fn, "runtime.") || strings.HasPrefix(fn, "panic") || strings.HasPrefix(fn, "sync.") || strings.HasPrefix(fn, "internal/") {
			continue
		}
		if firstUser == "" {
			firstUser = fn
		}
		if strings.Contains(fn, "github.com/apache/yunikorn-core/pkg/") && !strings.Contains(fn, "/pkg/simseam") {
			short := fn[strings.Index(fn, "/pkg/")+5:]
			repoFrames = append(repoFrames, short)
			if len(repoFrames) == 2 {
				break
			}
		}
	}
	if firstUser != "" && strings.Contains(firstUser, "github.com/apache/yunikorn-core/pkg/") && len(repoFrames) > 0 {
		out.panicSig = "C13:panic:" + repoFrames[0]
		out.panicMsg = msg + " at " + strings.Join(repoFrames, " <- ")
		return
	}
	// synctest reports a deadlocked bubble as a panic; a harness goroutine panicking is harness trouble
	out.harness = "panic outside repository code: " + msg + " first frame " + firstUser
}

func tail(s string, n int) string {
	if len(s) > n {
		return s[len(s)-n:]
	}
	return s
}

var raceFrameRe = regexp.MustCompile(`(?m)^  (\S+)\(\)\n      (\S+):(\d+)`)

func parseRaces(st string) []raceReport {
	var out []raceReport
	parts := strings.Split(st, "WARNING: DATA RACE")
	for _, p := range parts[1:] {
		end := strings.Index(p, "==================")
		if end > 0 {
			p = p[:end]
		}
		// the two access stacks are the first two blocks
		blocks := strings.Split(p, "\n\n")
		var sites []string
		for _, b := range blocks {
			if !(strings.Contains(b, "Write at") || strings.Contains(b, "Read at") || strings.Contains(b, "Previous write") || strings.Contains(b, "Previous read")) {
				continue
			}
			site := ""
			for _, m := range raceFrameRe.FindAllStringSubmatch(b, -1) {
				fn := m[1]
				if strings.Contains(fn, "github.com/apache/yunikorn-core/pkg/") && !strings.Contains(fn, "/pkg/simseam") && !strings.Contains(fn, "/pkg/locking") {
					site = fn[strings.Index(fn, "/pkg/")+5:]
					break
				}
				if site == "" && strings.HasPrefix(fn, "verif/sim") {
					site = "HARNESS:" + fn
					break
				}
			}
			if site == "" {
				site = "?"
			}
			sites = append(sites, site)
		}
		sort.Strings(sites)
		// both accesses in harness code: an artefact of the hand-over between simulated goroutines being invisible to
		// the race detector (only one of them runs at a time), not a race of the system under test
		harnessOnly := len(sites) > 0
		for _, st := range sites {
			if !strings.HasPrefix(st, "HARNESS:") {
				harnessOnly = false
			}
		}
		if harnessOnly {
			continue
		}
		out = append(out, raceReport{Sig: "C14:race:" + strings.Join(sites, "|"), Text: tail("WARNING: DATA RACE"+p, 6000)})
	}
	return out
}

// ---- fan out -----------------------------------------------------------------------------------------

func fanOut(cfgs []map[string]any, timeout time.Duration, deadline time.Time, each func(*runOut)) int {
	var wg sync.WaitGroup
	ch := make(chan map[string]any)
	var mu sync.Mutex
	n := 0
	for w := 0; w < workers; w++ {
		wg.Add(1)
		go func() {
			defer wg.Done()
			for cfg := range ch {
				o := runOne(cfg, timeout)
				mu.Lock()
				n++
				each(o)
				mu.Unlock()
			}
		}()
	}
	for _, c := range cfgs {
		if !deadline.IsZero() && time.Now().After(deadline) {
			break
		}
		ch <- c
	}
	close(ch)
	wg.Wait()
	return n
}

func mkCfg(seed uint64, prop string, v variant) map[string]any {
	f := map[string]bool{}
	for _, k := range v.Faults {
		f[k] = true
	}
	cfg := map[string]any{"seed": seed, "profile": v.Profile, "prop": prop, "steps": v.Steps, "policy": v.Policy,
		"preempt_p": v.PreemptP, "pct_depth": v.PctDepth, "faults": f, "fault_rate": v.FaultRate}
	if v.Auto {
		cfg["auto"] = true
	}
	if v.Race {
		cfg["race"] = true
	}
	if v.Extra != nil {
		cfg["extra"] = v.Extra
	}
	if v.Freeze {
		cfg["freeze"] = true
	}
	if v.Engine != "" {
		cfg["engine"] = v.Engine
	}
	cfg["_variant"] = v.Name
	return cfg
}

func splitmix(x *uint64) uint64 {
	*x += 0x9e3779b97f4a7c15
	z := *x
	z = (z ^ (z >> 30)) * 0xbf58476d1ce4e5b9
	z = (z ^ (z >> 27)) * 0x94d049bb133111eb
	return z ^ (z >> 31)
}
