module verif/vcheck

go 1.23
