#!/bin/bash
# seedtest.sh <PROP> <k> [extra vcheck args]: confirm a seeded change (build, existing tests, demo fails with / passes without),
# keep it under /verif/seeded/<PROP>-<k>/, then run the property's check against it in /repo and undo it.
set -u
P=$1; K=$2; shift 2
SRC=/tmp/wt-$P/seeded_out/$K
DST=/verif/seeded/$P-$K
export GOFLAGS=-mod=mod GOPROXY=off
mkdir -p $DST; [ -f $DST/patch.diff ] || cp $SRC/patch.diff $SRC/demo_test.go $SRC/meta.json $DST/ 2>/dev/null
PKG=$(python3 -c "import json;print(json.load(open('$DST/meta.json')).get('demo_package','pkg/scheduler').rstrip('/'))")
WT=/tmp/sv-$P-$K
git -C /repo worktree remove --force $WT 2>/dev/null
git -C /repo worktree add -q --detach $WT HEAD || exit 2
cd $WT
cp $DST/demo_test.go $PKG/zz_seeded_demo_test.go
R_CLEAN=$(go test -count=1 -run 'TestSeededDemo$' ./$PKG/ 2>&1 | tail -1)
if ! git apply $DST/patch.diff; then echo "PATCH DOES NOT APPLY"; cd /; git -C /repo worktree remove --force $WT; exit 2; fi
R_BUILD=$(go build ./... 2>&1 | tail -1)
R_DEMO=$(go test -count=1 -run 'TestSeededDemo$' ./$PKG/ 2>&1 | tail -1)
rm $PKG/zz_seeded_demo_test.go
TOUCHED=$(git diff --name-only | xargs -n1 dirname | sort -u | sed 's#^#./#' | tr '\n' ' ')
R_TESTS=$(go test -count=1 $TOUCHED ./pkg/scheduler/tests/ 2>&1 | grep -E "^(ok|FAIL|---)" | tr '\n' ';')
echo "clean: $R_CLEAN | build: ${R_BUILD:-ok} | demo with change: $R_DEMO | existing tests with change: $R_TESTS"
# now the check, against the scratch worktree that has the change applied (equivalent to applying it in /repo and undoing it)
cd /verif
T0=$(date +%s)
VERIF_REPO=$WT VERIF_OUTDIR=$DST bin/vcheck $P --tier quick "$@" > $DST/check_quick.log 2>&1; RC=$?
T1=$(date +%s)
cd /; git -C /repo worktree remove --force $WT
echo "vcheck $P quick exit=$RC in $((T1-T0))s: $(grep -c '^VIOLATION' $DST/check_quick.log) violation lines"
grep -A2 '^VIOLATION' $DST/check_quick.log | cut -c1-400 | head -12
python3 - <<PY
import json
m=json.load(open('$DST/meta.json'))
m['confirmed']={'clean_demo':'''$R_CLEAN''','build':'''${R_BUILD:-ok}''','demo_with_change':'''$R_DEMO''','existing_tests_with_change':'''$R_TESTS''','check_quick_exit':$RC,'check_seconds':$((T1-T0))}
json.dump(m,open('$DST/meta.json','w'),indent=1)
PY
